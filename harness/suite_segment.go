package main

import (
	"errors"
	"fmt"
	"hash/crc32"
	"strconv"
	"strings"
	"sync/atomic"
	"time"

	"github.com/hashicorp/raft-wal/segment"
	"github.com/hashicorp/raft-wal/types"
	"verifharness/simfs"
)

// segment suite: the real segment.Filer/Writer/Reader over simfs vs
// Model.Segment, byte for byte; crash chains (tear / recover / append over
// stale bytes); malformed files; dump. Monitors: C01/C02 at the segment level
// (acked entries survive, nothing fabricated, in-flight batch all-or-nothing),
// C09 (bytes equal the model's, which is proved equal to Spec.Format), C11 (no
// panic), C15 (accepted ⇒ readable).

var castagnoli = crc32.MakeTable(crc32.Castagnoli)

func segClass(err error) string {
	switch {
	case err == nil:
		return "ok"
	case errors.Is(err, types.ErrSealed):
		return "err sealed"
	case errors.Is(err, types.ErrCorrupt):
		return "err corrupt"
	case errors.Is(err, types.ErrNotFound):
		return "err notfound"
	default:
		return "err other"
	}
}

type segImpl struct {
	disk  *simfs.Disk
	filer *segment.Filer
	w     types.SegmentWriter
	sr    types.SegmentReader
	name  string
}

func newSegImpl() *segImpl {
	d := simfs.New()
	d.Record = false
	return &segImpl{disk: d, filer: segment.NewFiler("d", d)}
}

func atoiU(s string) uint64 { v, _ := strconv.ParseUint(s, 10, 64); return v }

func mkSegInfo(id, base, min, max, codec, indexStart, size string, sealed bool) types.SegmentInfo {
	si := types.SegmentInfo{ID: atoiU(id), BaseIndex: atoiU(base), MinIndex: atoiU(min), MaxIndex: atoiU(max), Codec: atoiU(codec),
		IndexStart: atoiU(indexStart), SizeLimit: uint32(atoiU(size)), CreateTime: time.Unix(1, 0)}
	if sealed {
		si.SealTime = time.Unix(2, 0)
	}
	return si
}

func parseEntries(ws []string) []types.LogEntry {
	var es []types.LogEntry
	for _, w := range ws {
		i := strings.IndexByte(w, ':')
		es = append(es, types.LogEntry{Index: atoiU(w[:i]), Data: unhx(w[i+1:])})
	}
	return es
}

func (s *segImpl) setFault(f string) {
	switch {
	case f == "n":
		s.disk.Fault = nil
	case f == "s":
		s.disk.Fault = func(kind string, call int, name string) *simfs.FaultAction {
			if kind == "sync" {
				return &simfs.FaultAction{}
			}
			return nil
		}
	case strings.HasPrefix(f, "w"):
		landed, _ := strconv.Atoi(f[1:])
		s.disk.Fault = func(kind string, call int, name string) *simfs.FaultAction {
			if kind == "write" {
				return &simfs.FaultAction{Landed: landed}
			}
			return nil
		}
	}
}

func (s *segImpl) exec(op string) (out string) {
	defer func() {
		if r := recover(); r != nil {
			out = "panic"
		}
	}()
	ws := strings.Fields(op)
	switch ws[0] {
	case "app", "tear", "seal", "sealed", "last", "get":
		if s.w == nil {
			return "err nowriter"
		}
	case "sget":
		if s.sr == nil {
			return "err noreader"
		}
	case "file", "filehex", "hdrat", "crcwalk", "mut", "trunc", "recover", "opensealed", "dump":
		if s.name == "" {
			return "err nofile"
		}
	}
	switch ws[0] {
	case "case":
		return "case"
	case "new":
		info := mkSegInfo(ws[1], ws[2], ws[3], "0", ws[4], "0", ws[5], false)
		s.name = segment.FileName(info)
		s.disk.RemoveFile(s.name)
		s.w = nil
		w, err := s.filer.Create(info)
		if err != nil {
			s.name = ""
			return segClass(err)
		}
		s.w = w
		return "ok"
	case "app":
		s.setFault(ws[1])
		err := s.w.Append(parseEntries(ws[2:]))
		s.disk.Fault = nil
		return segClass(err)
	case "tear":
		// in-flight append whose fsync never completed before a power loss:
		// chunk j (8 bytes) of the written range persists iff mask[j % len] == '1'.
		before, _ := s.disk.FileData(s.name)
		var wrOff int64 = -1
		var wrLen int
		// the write of the batch is the LAST write of the call: after a failed append the writer first zeroes what that
		// one left behind the tail (a write and an fsync of their own, durable by the time the batch is written) — the
		// image is built from the file as it was just before the last write
		s.disk.Before = func(ev *simfs.Event) {
			if ev.Kind == "write" {
				before, _ = s.disk.FileData(s.name)
				wrOff, wrLen = ev.Off, len(ev.Data)
			}
		}
		err := s.w.Append(parseEntries(ws[2:]))
		s.disk.Before = nil
		if err != nil {
			return segClass(err)
		}
		after, _ := s.disk.FileData(s.name)
		img := append([]byte(nil), before...)
		if len(after) > len(img) {
			img = append(img, make([]byte, len(after)-len(img))...)
		}
		mask := ws[1]
		for j := 0; j*8 < wrLen; j++ {
			if mask[j%len(mask)] == '1' {
				lo := int(wrOff) + j*8
				hi := lo + 8
				if hi > int(wrOff)+wrLen {
					hi = int(wrOff) + wrLen
				}
				copy(img[lo:hi], after[lo:hi])
			}
		}
		s.disk.SetFileData(s.name, img)
		s.w = nil
		return "ok"
	case "seal":
		s.setFault(ws[1])
		is, err := s.w.ForceSeal()
		s.disk.Fault = nil
		if err != nil {
			return segClass(err)
		}
		return fmt.Sprintf("ok %d", is)
	case "sealed":
		b, is, _ := s.w.Sealed()
		if b {
			return fmt.Sprintf("true %d", is)
		}
		return "false"
	case "last":
		return fmt.Sprint(s.w.LastIndex())
	case "get":
		pb, err := s.w.GetLog(atoiU(ws[1]))
		if err != nil {
			return segClass(err)
		}
		defer pb.Close()
		return "ok " + hx(pb.Bs)
	case "file":
		data, _ := s.disk.FileData(s.name)
		return fmt.Sprintf("%d %d", len(data), crc32.Checksum(data, castagnoli))
	case "filehex":
		data, _ := s.disk.FileData(s.name)
		return hx(data)
	case "crcwalk": // README walk of the file with CRC validation of every commit frame
		data, _ := s.disk.FileData(s.name)
		c, e, bad := readmeWalk(data)
		return fmt.Sprintf("commits=%d entries=%d bad=%d", c, e, bad)
	case "hdrat": // the 8 bytes at an offset read as a frame header: "<type> <length>"
		data, _ := s.disk.FileData(s.name)
		off := int(atoiU(ws[1]))
		if off < 0 || off+8 > len(data) {
			return "out-of-file"
		}
		return fmt.Sprintf("%d %d", data[off], uint32(data[off+4])|uint32(data[off+5])<<8|uint32(data[off+6])<<16|uint32(data[off+7])<<24)
	case "setfile":
		s.disk.SetFileData(s.name, unhx(ws[1]))
		return "ok"
	case "mut":
		data, _ := s.disk.FileData(s.name)
		off := int(atoiU(ws[1]))
		p := unhx(ws[2])
		if len(data) < off+len(p) {
			data = append(data, make([]byte, off+len(p)-len(data))...)
		}
		copy(data[off:], p)
		s.disk.SetFileData(s.name, data)
		return "ok"
	case "trunc":
		data, _ := s.disk.FileData(s.name)
		n := int(atoiU(ws[1]))
		if n < len(data) {
			data = data[:n]
		}
		s.disk.SetFileData(s.name, data)
		return "ok"
	case "recover":
		info := mkSegInfo(ws[1], ws[2], ws[3], "0", ws[4], "0", ws[5], false)
		if segment.FileName(info) != s.name {
			// recover under different expected metadata: same bytes under the new name
			data, _ := s.disk.FileData(s.name)
			s.disk.RemoveFile(s.name)
			s.name = segment.FileName(info)
			s.disk.SetFileData(s.name, data)
		}
		s.w = nil
		w, err := s.filer.RecoverTail(info)
		if err != nil {
			return segClass(err)
		}
		s.w = w
		return "ok"
	case "opensealed":
		info := mkSegInfo(ws[1], ws[2], ws[3], ws[4], ws[5], ws[6], ws[7], true)
		if segment.FileName(info) != s.name {
			data, _ := s.disk.FileData(s.name)
			s.disk.RemoveFile(s.name)
			s.name = segment.FileName(info)
			s.disk.SetFileData(s.name, data)
		}
		s.sr = nil
		r, err := s.filer.Open(info)
		if err != nil {
			return segClass(err)
		}
		s.sr = r
		return "ok"
	case "sget":
		pb, err := s.sr.GetLog(atoiU(ws[1]))
		if err != nil {
			return segClass(err)
		}
		defer pb.Close()
		return "ok " + hx(pb.Bs)
	case "dump":
		var parts []string
		base := atoiU(ws[1])
		// DumpSegment opens by (baseIndex, id) encoded in the current name
		var b, id uint64
		fmt.Sscanf(s.name, "%020d-%016x.wal", &b, &id)
		if b != base {
			data, _ := s.disk.FileData(s.name)
			s.disk.RemoveFile(s.name)
			s.name = segment.FileName(types.SegmentInfo{BaseIndex: base, ID: id})
			s.disk.SetFileData(s.name, data)
		}
		err := s.filer.DumpSegment(base, id, atoiU(ws[2]), atoiU(ws[3]), func(info types.SegmentInfo, e types.LogEntry) (bool, error) {
			parts = append(parts, fmt.Sprintf("%d:%s", e.Index, hx(e.Data)))
			return true, nil
		})
		st := "ok"
		if err != nil {
			st = "err"
		}
		return fmt.Sprintf("%s %d %s", st, len(parts), strings.Join(parts, " "))
	}
	return "bad-op"
}

func execSegment(ops []string) []string {
	s := newSegImpl()
	out := make([]string, len(ops))
	dead := false
	for i, op := range ops {
		if dead {
			out[i] = "dead-after-hang"
			continue
		}
		out[i] = timedSeg(func() string { return s.exec(op) })
		dead = out[i] == "hang"
	}
	return out
}

// timedSeg: an operation of the segment code that does not return (a scan that stops advancing on damaged bytes) is an
// answer — "hang" — not a hang of the suite; the goroutine is abandoned
func timedSeg(f func() string) string {
	done := make(chan string, 1)
	go func() { done <- safeExec(f) }()
	select {
	case o := <-done:
		return o
	case <-time.After(segOpDeadline()):
		atomic.AddInt32(&segHangs, 1)
		return "hang"
	}
}

var segHangs int32

func segOpDeadline() time.Duration {
	if atomic.LoadInt32(&segHangs) >= 3 {
		return 2 * time.Second
	}
	return 15 * time.Second
}

func safeExec(f func() string) (out string) {
	defer func() {
		if r := recover(); r != nil {
			out = "panic"
		}
	}()
	return f()
}

// ---- monitor (computed from ops + real outputs only) ----

func segMonitor(ops, impl []string) []Violation {
	var vs []Violation
	acked := map[uint64]string{} // index -> payload hex, content most recently acknowledged
	var ackedLast, base uint64   // ackedLast = 0: nothing acked
	inflight := map[uint64]string{}
	var inflightN uint64
	recovered := false
	faulted := false // an append failed on an injected I/O error earlier in this case (no crash in between)
	multiFail := false
	var skipAbove uint64
	skipActive := false
	add := func(p, what, detail string, upto int) {
		vs = append(vs, Violation{Property: p, What: what, Detail: detail, Ops: ops[:upto+1], Impl: impl[:upto+1]})
		if faulted && p != "C11" && p != "C10" {
			vs = append(vs, Violation{Property: "C10", What: "after an append that failed on an I/O error: " + what, Detail: detail, Ops: ops[:upto+1], Impl: impl[:upto+1]})
		}
	}
	malformed := false
	var sealedReported, osMin, osMax uint64
	osOK := false
	sealedID := ""
	for i, op := range ops {
		ws := strings.Fields(op)
		out := impl[i]
		if ws[0] == "new" {
			sealedID = ws[1]
		}
		if out == "panic" {
			add("C11", "segment code panicked", op, i)
			continue
		}
		if out == "hang" {
			add("C11", "segment code does not return on these file contents (loops forever)", op, i)
			break
		}
		if out == "dead-after-hang" {
			break
		}
		switch ws[0] {
		case "new":
			base = atoiU(ws[2])
			acked = map[uint64]string{}
			ackedLast = 0
			malformed = false
			faulted, multiFail, skipActive = false, false, false
		case "setfile", "mut", "trunc":
			malformed = true // arbitrary damage: C01/C02 make no promise
		case "app":
			if out == "ok" {
				for _, e := range parseEntries(ws[2:]) {
					acked[e.Index] = hx(e.Data)
					ackedLast = e.Index
				}
				inflight = map[uint64]string{}
				inflightN = 0
			} else if ws[1] != "n" && strings.HasPrefix(out, "err") {
				// failed on the injected fault: rolled back in memory; its bytes may or may not be on disk, so a
				// recovery that follows directly may find the batch in full or not at all (as for a torn write)
				if faulted && inflightN > 0 {
					multiFail = true // several failed batches may each be found on disk: only "nothing acknowledged is lost" is checked
				}
				faulted = true
				inflight = map[uint64]string{}
				inflightN = 0
				for _, e := range parseEntries(ws[2:]) {
					inflight[e.Index] = hx(e.Data)
					inflightN++
				}
			}
		case "seal":
			if strings.HasPrefix(out, "ok") {
				sealedReported = atoiU(strings.Fields(out)[1])
			}
			if len(ws) > 1 && ws[1] != "n" && strings.HasPrefix(out, "err") {
				faulted = true // ForceSeal failed on an injected fault and rolled back: nothing acknowledged may be lost
			}
		case "tear":
			inflight = map[uint64]string{}
			inflightN = 0
			if out == "ok" {
				for _, e := range parseEntries(ws[2:]) {
					inflight[e.Index] = hx(e.Data)
					inflightN++
				}
			}
		case "recover":
			if malformed {
				continue
			}
			if strings.HasPrefix(out, "err no") {
				continue // harness answer: no file was ever created in this case
			}
			if out != "ok" {
				add("C03", "recovery of a crash image failed", op+" -> "+out, i)
				continue
			}
			recovered = true
		case "last":
			if !recovered || malformed {
				continue
			}
			last := atoiU(out)
			if last < ackedLast {
				add("C01", "acknowledged entries lost by recovery", fmt.Sprintf("last=%d acked up to %d", last, ackedLast), i)
			}
			want0, want1 := ackedLast, ackedLast+inflightN
			if ackedLast == 0 && inflightN > 0 {
				want1 = base + inflightN - 1
			}
			if multiFail {
				// which of the failed batches recovery found is not tracked: from here on only the acknowledged
				// prefix is checked
				skipAbove, skipActive = ackedLast, true
				inflight, inflightN, recovered, multiFail = map[uint64]string{}, 0, false, false
				continue
			}
			if last != want0 && last != want1 {
				add("C02", "in-flight batch half-applied or entries fabricated", fmt.Sprintf("last=%d, admissible %d or %d", last, want0, want1), i)
			}
			if last == want1 && inflightN > 0 {
				for k, v := range inflight {
					acked[k] = v
				}
				ackedLast = last
			}
			inflight = map[uint64]string{}
			inflightN = 0
			recovered = false
		case "crcwalk":
			// README: a commit frame carries the CRC of the bytes since the previous commit. Everything acknowledged
			// must lie under commit frames that check (a frame that does not is what recovery will cut the log at).
			if malformed {
				continue
			}
			var c, e, bad int
			fmt.Sscanf(out, "commits=%d entries=%d bad=%d", &c, &e, &bad)
			if ackedLast != 0 && uint64(e) < ackedLast-base+1 {
				add("C09", "a commit frame of an acknowledged batch does not carry the CRC-32C of the bytes since the previous commit", fmt.Sprintf("%s (acknowledged up to index %d, base %d)", out, ackedLast, base), i)
			}
		case "hdrat":
			// issued by the generator right after the writer reported (sealed, IndexStart): README — IndexStart is the
			// offset of the index array, directly preceded by an index frame header (type 2) whose length is 4 bytes
			// per entry
			if malformed {
				continue
			}
			f := strings.Fields(out)
			if len(f) != 2 || f[0] != "2" || atoiU(f[1])%4 != 0 || atoiU(f[1]) == 0 {
				add("C09", "the IndexStart the writer reports is not directly preceded by an index frame header", fmt.Sprintf("%s -> %s", op, out), i)
			}
		case "sealed":
			if strings.HasPrefix(out, "true") {
				sealedReported = atoiU(strings.Fields(out)[1])
			}
		case "opensealed":
			// a sealed reader opened with the IndexStart the live writer reported, the file's own id, and [min, max]
			osOK = out == "ok" && !malformed && atoiU(ws[6]) == sealedReported && sealedReported != 0 && sealedID == ws[1]
			osMin, osMax = atoiU(ws[3]), atoiU(ws[4])
		case "sget":
			// read through the index block: an acknowledged entry inside [min, max] comes back as stored
			if !osOK || malformed {
				continue
			}
			idx := atoiU(ws[1])
			if skipActive && idx > skipAbove {
				continue
			}
			if want, ok := acked[idx]; ok && idx <= ackedLast && idx >= osMin && idx <= osMax {
				if out != "ok "+want {
					add("C02", "acknowledged entry not returned through the index the writer reported when it sealed the segment", fmt.Sprintf("sget %d = %s want ok %s (IndexStart %d)", idx, clipS(out), clipS(want), sealedReported), i)
				}
			}
		case "get":
			if malformed {
				continue
			}
			idx := atoiU(ws[1])
			if skipActive && idx > skipAbove {
				continue
			}
			if want, ok := acked[idx]; ok && idx <= ackedLast {
				if out != "ok "+want {
					p := "C02"
					if strings.HasPrefix(out, "err") {
						p = "C15"
					}
					add(p, "entry not returned as most recently stored", fmt.Sprintf("get %d = %s want ok %s", idx, clipS(out), clipS(want)), i)
				}
			} else if strings.HasPrefix(out, "ok") {
				add("C02", "entry returned that was never stored", fmt.Sprintf("get %d = %s", idx, clipS(out)), i)
			}
		}
	}
	return vs
}

func clipS(s string) string {
	if len(s) > 80 {
		return s[:80] + "…"
	}
	return s
}

// ---- generator ----

type segGen struct {
	dead  bool
	r     *Rng
	impl  *segImpl
	ops   []string
	out   []string
	tags  map[string]bool
	base  uint64
	next  uint64
	size  int
	codec uint64
	id    uint64
}

func (g *segGen) do(op string) string {
	o := "dead-after-hang"
	if !g.dead {
		o = timedSeg(func() string { return g.impl.exec(op) })
		g.dead = o == "hang"
	}
	g.ops = append(g.ops, op)
	g.out = append(g.out, o)
	return o
}

func (g *segGen) payload() []byte {
	r := g.r
	switch r.Intn(10) {
	case 0:
		return nil
	case 1:
		return r.Bytes(1 + r.Intn(8))
	case 2:
		return r.Bytes(8 * (1 + r.Intn(4)))
	case 3:
		return r.Bytes(g.size/2 + r.Intn(g.size))
	default:
		return r.Bytes(r.Intn(40))
	}
}

func (g *segGen) batch(n int) string {
	var sb strings.Builder
	for i := 0; i < n; i++ {
		fmt.Fprintf(&sb, " %d:%s", g.next+uint64(i), hx(g.payload()))
	}
	return sb.String()
}

func (g *segGen) infoArgs() string {
	return fmt.Sprintf("%d %d %d %d %d", g.id, g.base, g.base, g.codec, g.size)
}

func genSegCase(r *Rng, id string, tier string) *Case {
	g := &segGen{r: r, impl: newSegImpl(), tags: map[string]bool{}}
	g.base = pick(r, []uint64{1, 1, 1, 7, 100, 1 << 40})
	g.next = g.base
	g.size = pick(r, []int{96, 128, 256, 512, 1024, 4096})
	g.codec = pick(r, []uint64{0, 0, 1 << 16})
	g.id = uint64(r.Intn(5))
	kind := r.Intn(10)
	g.do("new " + g.infoArgs())
	steps := 3 + r.Intn(6)
	sealedIS := uint64(0)
	for s := 0; s < steps; s++ {
		n := 1 + r.Intn(3)
		if r.Chance(1, 6) {
			n = 1 + r.Intn(8)
		}
		switch {
		case kind <= 3 || (kind <= 6 && s == 0): // plain append
			o := g.do("app n" + g.batch(n))
			if o == "ok" {
				g.next += uint64(n)
			} else {
				g.tags["app:"+o] = true
			}
		case kind <= 6: // crash chain
			if r.Chance(2, 3) {
				mask := ""
				for k := 0; k < 1+r.Intn(12); k++ {
					mask += string("01"[r.Intn(2)])
				}
				switch r.Intn(6) {
				case 0:
					mask = "1"
				case 1:
					mask = "0"
				case 2: // everything but the first chunk
					mask = "0" + strings.Repeat("1", 63)
				}
				// align: re-use the shape of the previous torn batch with fewer entries so
				// that new commits land on stale frame boundaries
				b := g.batch(n)
				o := g.do("tear " + mask + b)
				g.tags["tear"] = true
				if o != "ok" {
					g.tags["tear:"+o] = true
				}
				ro := g.do("recover " + g.infoArgs())
				if ro != "ok" {
					g.tags["recover:"+ro] = true
					goto done
				}
				l := atoiU(g.do("last"))
				if l == 0 {
					g.next = g.base
				} else {
					g.next = l + 1
				}
				if so := g.do("sealed"); so != "false" {
					g.tags["recovered-sealed"] = true
					if f := strings.Fields(so); len(f) == 2 && atoiU(f[1]) >= 8 {
						g.do(fmt.Sprintf("hdrat %d", atoiU(f[1])-8))
					}
				}
				// overwrite stale bytes with a batch of the same shape minus its last entry
				if r.Chance(1, 2) && n > 1 {
					parts := strings.Fields(b)
					var sb strings.Builder
					for i, p := range parts[:len(parts)-1] {
						k := strings.IndexByte(p, ':')
						old := unhx(p[k+1:])
						fmt.Fprintf(&sb, " %d:%s", g.next+uint64(i), hx(r.Bytes(len(old))))
					}
					mask2 := pick(r, []string{"1", "01", "10", "0" + strings.Repeat("1", 63), strings.Repeat("1", 3) + "0", "1101"})
					g.do("tear " + mask2 + sb.String())
					g.tags["tear-aligned"] = true
					if ro := g.do("recover " + g.infoArgs()); ro != "ok" {
						g.tags["recover:"+ro] = true
						goto done
					}
					l := atoiU(g.do("last"))
					if l == 0 {
						g.next = g.base
					} else {
						g.next = l + 1
					}
				}
			} else {
				o := g.do("app n" + g.batch(n))
				if o == "ok" {
					g.next += uint64(n)
				}
			}
		case kind == 7: // I/O faults
			f := "n"
			switch r.Intn(3) {
			case 0:
				f = fmt.Sprintf("w%d", r.Intn(64))
			case 1:
				f = "s"
			}
			b := g.batch(n)
			if s == 0 && r.Chance(1, 3) {
				// first append into the fresh file with a batch larger than the writer's 64 KiB commit buffer (the
				// file header is still pending in that buffer), under the fault
				var sb strings.Builder
				for i := 0; i < 3; i++ {
					fmt.Fprintf(&sb, " %d:%s", g.next+uint64(i), hx(r.Bytes(22000+r.Intn(12000))))
				}
				b, n = sb.String(), 3
				g.tags["fault:first-batch-over-64KiB"] = true
			}
			o := g.do("app " + f + b)
			g.tags["fault:"+f[:1]] = true
			if o == "ok" {
				g.next += uint64(n)
			}
		default: // appends then damage
			o := g.do("app n" + g.batch(n))
			if o == "ok" {
				g.next += uint64(n)
			}
		}
		// reads
		if g.next > g.base {
			for k := 0; k < 2; k++ {
				g.do(fmt.Sprintf("get %d", g.base+uint64(r.Intn(int(g.next-g.base)+1))))
			}
		}
		if r.Chance(1, 8) {
			g.do(fmt.Sprintf("get %d", g.base-1))
		}
		if so := g.do("sealed"); strings.HasPrefix(so, "true") {
			sealedIS = atoiU(strings.Fields(so)[1])
			g.tags["sealed"] = true
			if sealedIS >= 8 {
				g.do(fmt.Sprintf("hdrat %d", sealedIS-8))
			}
			break
		}
	}
	g.do("last")
	g.do("file")
	if kind < 8 {
		g.do("crcwalk")
	}
	if kind == 7 && r.Chance(2, 3) {
		// clean reopen after the faults: everything acknowledged must come back
		if g.do("recover "+g.infoArgs()) == "ok" {
			g.do("last")
			for idx := g.base; idx < g.next && idx < g.base+8; idx++ {
				g.do(fmt.Sprintf("get %d", idx))
			}
			g.tags["fault:reopen"] = true
		}
		goto done
	}
	if sealedIS == 0 && r.Chance(1, 3) {
		f := "n"
		if r.Chance(1, 3) {
			f = pick(r, []string{"s", "w3", "w16", "w0"})
		}
		o := g.do("seal " + f)
		g.tags["forceseal"] = true
		if strings.HasPrefix(o, "ok") {
			sealedIS = atoiU(strings.Fields(o)[1])
			if sealedIS >= 8 {
				g.do(fmt.Sprintf("hdrat %d", sealedIS-8))
			}
		}
		g.do("file")
		if o2 := g.do("app n" + g.batch(1)); o2 == "ok" {
			g.next++
		}
		if f != "n" && !strings.HasPrefix(o, "ok") {
			// the seal failed on the injected fault and was rolled back: the append that followed was acknowledged;
			// its commit frame must carry the CRC of its bytes — after a reopen it is still there
			g.tags["fault:seal-then-append"] = true
			g.do("file")
			g.do("crcwalk")
			if g.do("recover "+g.infoArgs()) == "ok" {
				g.do("last")
				for idx := g.base; idx < g.next && idx < g.base+8; idx++ {
					g.do(fmt.Sprintf("get %d", idx))
				}
			}
			goto done
		}
	}
	if kind >= 8 { // malformed stream
		data, _ := g.impl.disk.FileData(g.impl.name)
		m := mutateFile(r, data)
		g.do("setfile " + hx(m))
		g.tags["malformed"] = true
		if r.Bool() {
			if g.do("recover "+g.infoArgs()) == "ok" {
				g.do("last")
				g.do("sealed")
				for k := uint64(0); k < 4; k++ {
					g.do(fmt.Sprintf("get %d", g.base+k))
				}
				g.do("app n" + fmt.Sprintf(" %d:aa", atoiU(g.out[len(g.out)-6])+1))
			}
		} else if g.next > g.base {
			// the live writer reads the damaged file through the offsets it holds in memory
			for k := uint64(0); k < 6 && g.base+k < g.next; k++ {
				g.do(fmt.Sprintf("get %d", g.base+k))
			}
			g.tags["malformed:live-read"] = true
		}
		g.do(fmt.Sprintf("dump %d %d %d", g.base, r.Intn(3), pick(r, []int{0, 0, 5})))
	}
	if sealedIS != 0 {
		max := g.next - 1
		minI := g.base + uint64(r.Intn(2))
		if r.Chance(1, 4) && max > g.base {
			max--
		}
		if r.Chance(1, 10) {
			max = 0
		}
		if g.do(fmt.Sprintf("opensealed %d %d %d %d %d %d %d", g.id, g.base, minI, max, g.codec, sealedIS, g.size)) == "ok" {
			for idx := g.base - 1; idx <= g.next+1 && idx < g.base+12; idx++ {
				g.do(fmt.Sprintf("sget %d", idx))
			}
		}
		// wrong expectations
		if r.Chance(1, 3) {
			g.do(fmt.Sprintf("opensealed %d %d %d %d %d %d %d", g.id+1, g.base, minI, max, g.codec, sealedIS, g.size))
			g.tags["open:wrong-id"] = true
		}
		g.do(fmt.Sprintf("dump %d 0 0", g.base))
	} else if r.Chance(1, 3) {
		g.do(fmt.Sprintf("dump %d %d %d", g.base, r.Intn(3), pick(r, []uint64{0, 0, g.next})))
	}
done:
	c := &Case{ID: id, Props: []string{"C01", "C02", "C03", "C09", "C10", "C11", "C15"}, SpecProps: []string{"C09"}, Ops: g.ops, Impl: g.out, Exec: execSegment, Monitor: segMonitor}
	c.Tags = append(c.Tags, fmt.Sprintf("kind:%d", kind))
	for t := range g.tags {
		c.Tags = append(c.Tags, t)
	}
	c.NonTrivial = len(g.tags) > 0
	c.Shape = strings.Join(sortedKeys(g.tags), ",") + fmt.Sprintf("/%d/%d", g.size, len(g.ops)/4)
	return c
}

// readmeWalk: README walk with CRC validation — every commit frame must carry the CRC-32C of exactly the bytes since the
// previous commit frame (since the start of the file for the first). Returns the number of commit frames that check,
// the entries they cover and the offset of the first commit frame that does not check (0: the walk ended at free
// space or at something that is not a frame).
func readmeWalk(b []byte) (commits, covered, bad int) {
	off, crcStart, pending := 32, 0, 0
	for off+8 <= len(b) {
		typ := b[off]
		v := int(uint32(b[off+4]) | uint32(b[off+5])<<8 | uint32(b[off+6])<<16 | uint32(b[off+7])<<24)
		if b[off+1] != 0 || b[off+2] != 0 || b[off+3] != 0 {
			return
		}
		switch typ {
		case 1, 2:
			if len(b)-off-8 < (v+7)/8*8 || v < 0 {
				return
			}
			if typ == 1 {
				pending++
			}
			off += 8 + (v+7)/8*8
		case 3:
			if int(crc32.Checksum(b[crcStart:off], castagnoli)) != v {
				return commits, covered, off
			}
			commits++
			covered += pending
			pending = 0
			off += 8
			crcStart = off
		default:
			return
		}
	}
	return
}

// entryFrameOffsets walks the frames of a segment file (README layout: 32-byte header, frames of an 8-byte header
// [type, 3 reserved, u32 length] and a payload padded to 8 bytes) and returns the offsets of the entry frames.
func entryFrameOffsets(b []byte) []int {
	var out []int
	off := 32
	for off+8 <= len(b) {
		typ := b[off]
		ln := int(uint32(b[off+4]) | uint32(b[off+5])<<8 | uint32(b[off+6])<<16 | uint32(b[off+7])<<24)
		switch typ {
		case 1:
			out = append(out, off)
			off += 8 + (ln+7)/8*8
		case 2:
			off += 8 + (ln+7)/8*8
		case 3:
			off += 8
		default:
			return out
		}
		if ln < 0 || off < 0 {
			return out
		}
	}
	return out
}

// boundary values for a frame's length field: around the uint32 wrap of header+length, the sign bit, MaxEntrySize,
// the read buffer size, and the space left in the file
func boundaryLen(r *Rng, fileLen, off int) uint32 {
	rest := uint32(0)
	if fileLen > off+8 {
		rest = uint32(fileLen - off - 8)
	}
	return pick(r, []uint32{0xffffffff, 0xfffffffe, 0xfffffffc, 0xfffffff9, 0xfffffff8, 0xfffffff7, 0xfffffff0, 0x80000000, 0x7fffffff, 0x7ffffff8,
		64<<20 + 1, 64 << 20, 64<<20 - 7, 64<<10 - 8, 64<<10 - 7, 64 << 10, rest, rest + 1, rest - 1, rest + 8, 0})
}

func mutateFile(r *Rng, data []byte) []byte {
	b := append([]byte(nil), data...)
	if len(b) == 0 {
		return b
	}
	if r.Chance(1, 6) {
		// frame-aware damage: a well-formed looking frame header of any type with a tiny or odd length, placed at a frame
		// position — on top of an entry frame, or right behind the last bytes in use (where the scan of a tail goes next)
		pos := -1
		if offs := entryFrameOffsets(b); len(offs) > 0 && r.Bool() {
			pos = pick(r, offs)
		} else {
			u := len(b)
			for u > 0 && b[u-1] == 0 {
				u--
			}
			pos = (u + 7) &^ 7
		}
		if pos >= 32 && pos+8 <= len(b) {
			typ := byte(pick(r, []int{1, 2, 2, 2, 3, 4, 5, 0xff}))
			v := pick(r, []uint32{0, 1, 2, 3, 4, 5, 7, 8, 12, 0xffffffff})
			copy(b[pos:pos+8], []byte{typ, 0, 0, 0, byte(v), byte(v >> 8), byte(v >> 16), byte(v >> 24)})
			return b
		}
	}
	if offs := entryFrameOffsets(b); len(offs) > 0 && r.Chance(1, 3) {
		// frame-aware damage: the length field of one entry frame set to a boundary value, everything else intact
		off := pick(r, offs)
		v := boundaryLen(r, len(b), off)
		b[off+4], b[off+5], b[off+6], b[off+7] = byte(v), byte(v>>8), byte(v>>16), byte(v>>24)
		return b
	}
	used := len(b)
	for used > 0 && b[used-1] == 0 {
		used--
	}
	if used < 8 {
		used = len(b)
	}
	at := func() int {
		if used > len(b) {
			used = len(b)
		}
		if used > 0 && r.Chance(3, 4) {
			return r.Intn(used)
		}
		return r.Intn(len(b))
	}
	for k := 0; k < 1+r.Intn(3); k++ {
		if len(b) == 0 {
			break
		}
		switch r.Intn(9) {
		case 0:
			b[at()] ^= 1 << uint(r.Intn(8))
		case 1:
			b = b[:at()]
		case 2: // splice
			i, j := at(), at()
			if i < len(b) && j < len(b) {
				n := 8 + r.Intn(24)
				if i+n < len(b) && j+n < len(b) {
					copy(b[i:i+n], append([]byte(nil), b[j:j+n]...))
				}
			}
		case 3: // length-field edit: set 4 bytes at an 8-aligned+4 position
			i := at() &^ 7
			if i+8 <= len(b) {
				v := pick(r, []uint32{0xffffffff, 0x04000001, 0x04000000, 64*1024 + 1, uint32(r.Intn(4096)), 0x80000000})
				b[i+4], b[i+5], b[i+6], b[i+7] = byte(v), byte(v>>8), byte(v>>16), byte(v>>24)
			}
		case 4: // zero run
			i := at()
			for j := i; j < len(b) && j < i+8+r.Intn(32); j++ {
				b[j] = 0
			}
		case 5: // garbage run
			i := at()
			for j := i; j < len(b) && j < i+1+r.Intn(16); j++ {
				b[j] = byte(r.U64())
			}
		case 6: // frame type edit
			i := at() &^ 7
			if i < len(b) {
				b[i] = byte(r.Intn(6))
			}
		case 7: // truncate inside the header
			if r.Chance(1, 3) && len(b) > 0 {
				b = b[:r.Intn(40)%len(b)]
			}
		default:
			if r.Chance(1, 6) {
				b = r.Bytes(r.Intn(200))
			}
		}
		if len(b) == 0 {
			break
		}
	}
	return b
}

// genFrameInjectionCase: an adversarial payload. The torn batch's single entry carries, inside its payload, bytes that are
// themselves a well-formed entry frame followed by a commit frame with the matching CRC. The tear loses only the
// first chunk (the real frame header), so recovery rejects the batch — and must leave nothing of it behind: the next
// acknowledged append is sized to end exactly where the embedded frames begin, and after another restart the embedded
// commit would validate (its CRC range starts right after the real commit) and fabricate an entry.
func genFrameInjectionCase(r *Rng, id string) *Case {
	g := &segGen{r: r, impl: newSegImpl(), tags: map[string]bool{"frame-injection": true}}
	g.base = pick(r, []uint64{1, 7, 100})
	g.next = g.base
	g.size = 4096
	g.codec = 0
	g.id = uint64(r.Intn(3))
	g.do("new " + g.infoArgs())
	n0 := 1 + r.Intn(3)
	if g.do("app n"+g.batch(n0)) == "ok" {
		g.next += uint64(n0)
	}
	k := 8 * (2 + r.Intn(4)) // filler before the embedded frames
	inner := r.Bytes(8 * (1 + r.Intn(3)))
	var e []byte
	e = append(e, 1, 0, 0, 0, byte(len(inner)), byte(len(inner)>>8), 0, 0)
	e = append(e, inner...)
	crc := crc32.Checksum(e, castagnoli)
	c := []byte{3, 0, 0, 0, byte(crc), byte(crc >> 8), byte(crc >> 16), byte(crc >> 24)}
	payload := append(append(r.Bytes(k), e...), c...)
	g.do(fmt.Sprintf("tear 0%s %d:%s", strings.Repeat("1", 63), g.next, hx(payload)))
	if g.do("recover "+g.infoArgs()) != "ok" {
		goto done
	}
	g.do("last")
	g.do("file")
	// the acknowledged replacement ends exactly where the embedded frames begin
	if g.do(fmt.Sprintf("app n %d:%s", g.next, hx(r.Bytes(k-8)))) == "ok" {
		g.next++
	}
	g.do("file")
	if g.do("recover "+g.infoArgs()) == "ok" {
		g.do("last")
		for idx := g.base; idx <= g.next+1; idx++ {
			g.do(fmt.Sprintf("get %d", idx))
		}
	}
done:
	cs := &Case{ID: id, Props: []string{"C01", "C02", "C03", "C09", "C10", "C11", "C15"}, SpecProps: []string{"C09"}, Ops: g.ops, Impl: g.out, Exec: execSegment, Monitor: segMonitor}
	cs.Tags = []string{"frame-injection"}
	cs.NonTrivial = true
	cs.Shape = fmt.Sprintf("frame-injection/%d/%d", k, len(inner))
	return cs
}

// genStaleCommitCase: two commit frames behind the acknowledged tail, neither of them good. An append fails after all
// its bytes were written (the fsync fails; the writer rolls back in memory only, the bytes stay in the file); the next
// batch is in flight when the power fails: it is shorter, ends exactly on a frame boundary of the failed batch, and of
// its chunks only the first (the entry's frame header) and the last (its commit frame) reach the disk. The scan then
// sees: the torn entry, its commit (CRC wrong), the intact stale frames of the failed batch, the failed batch's commit
// (CRC wrong too, its range was overwritten). Recovery must go back to the last acknowledged commit — accepting
// "the commit before the last one" unchecked fabricates an entry made of two batches.
func genStaleCommitCase(r *Rng, id string) *Case {
	g := &segGen{r: r, impl: newSegImpl(), tags: map[string]bool{"stale-commit": true, "tear": true, "fault": true}}
	g.base = pick(r, []uint64{1, 7, 100})
	g.next = g.base
	g.size = 4096
	g.codec = 0
	g.id = uint64(r.Intn(3))
	g.do("new " + g.infoArgs())
	n0 := 1 + r.Intn(3)
	if g.do("app n"+g.batch(n0)) == "ok" {
		g.next += uint64(n0)
	}
	p1, p2, p3 := 8*(1+r.Intn(4)), 8*(1+r.Intn(4)), 8*(1+r.Intn(3))
	nTail := 1 + r.Intn(2) // stale entry frames that follow the point where the torn batch ends
	var fa strings.Builder
	sizes := []int{p1, p2}
	for k := 0; k < nTail; k++ {
		sizes = append(sizes, p3)
	}
	for k, p := range sizes {
		fmt.Fprintf(&fa, " %d:%s", g.next+uint64(k), hx(r.Bytes(p)))
	}
	g.do("app s" + fa.String()) // fsync fails: error, nothing acknowledged, bytes stay behind the tail
	g.do("last")
	// frame(b1) + commit frame = frame(a1) + frame(a2)  <=>  len(b1) = p1 + p2   (all multiples of 8)
	chunks := (8 + p1 + p2 + 8) / 8
	mask := "1" + strings.Repeat("0", chunks-2) + "1"
	if r.Chance(1, 3) {
		// a second chunk of the payload lands as well
		b := []byte(mask)
		b[1+r.Intn(chunks-2)] = '1'
		mask = string(b)
	}
	g.do(fmt.Sprintf("tear %s %d:%s", mask, g.next, hx(r.Bytes(p1+p2))))
	if g.do("recover "+g.infoArgs()) == "ok" {
		g.do("last")
		g.do("file")
		for idx := g.base; idx <= g.next+2; idx++ {
			g.do(fmt.Sprintf("get %d", idx))
		}
		// and the recovered writer takes the next batch, which survives a further restart
		if g.do("app n"+g.batch(1)) == "ok" {
			g.next++
		}
		if g.do("recover "+g.infoArgs()) == "ok" {
			g.do("last")
			for idx := g.base; idx <= g.next+1; idx++ {
				g.do(fmt.Sprintf("get %d", idx))
			}
		}
	}
	cs := &Case{ID: id, Props: []string{"C01", "C02", "C03", "C09", "C10", "C11", "C15"}, SpecProps: []string{"C09"}, Ops: g.ops, Impl: g.out, Exec: execSegment, Monitor: segMonitor}
	cs.Tags = []string{"stale-commit"}
	cs.NonTrivial = true
	cs.Shape = fmt.Sprintf("stale-commit/%d/%d/%d/%d", p1, p2, p3, nTail)
	return cs
}

// genStaleInjectionCase: the witness of `chain_atomic_faults_false` (Proofs/SegmentChainFault.lean), found by the prover
// on the model and replayed here on the real code. An append fails on its fsync after all its bytes were written (the
// writer rolls back in memory; the bytes stay behind the tail). Its single payload is adversarial: a filler, then bytes
// that are themselves a well-formed entry frame followed by a commit frame carrying the CRC-32C of that frame. The next
// append is acknowledged and shorter: it ends exactly where the embedded entry frame begins. No crash: after a clean
// restart the recovery scan walks on into the stale bytes, finds an entry and a commit whose CRC genuinely matches the
// bytes since the previous commit, and the log has one entry more than was ever stored.
func genStaleInjectionCase(r *Rng, id string) *Case {
	g := &segGen{r: r, impl: newSegImpl(), tags: map[string]bool{"stale-injection": true, "fault": true}}
	g.base = pick(r, []uint64{1, 5, 100})
	g.next = g.base
	g.size = 4096
	g.codec = 0
	g.id = uint64(r.Intn(3))
	g.do("new " + g.infoArgs())
	n0 := 1 + r.Intn(3)
	if g.do("app n"+g.batch(n0)) == "ok" {
		g.next += uint64(n0)
	}
	// the acknowledged replacement: one entry with a payload of p bytes (p a multiple of 8): frame 8+p, commit 8
	p := 8 * r.Intn(3)
	inner := r.Bytes(1 + r.Intn(8))
	var e []byte
	e = append(e, 1, 0, 0, 0, byte(len(inner)), 0, 0, 0)
	e = append(e, inner...)
	for len(e)%8 != 0 {
		e = append(e, 0)
	}
	crc := crc32.Checksum(e, castagnoli)
	c := []byte{3, 0, 0, 0, byte(crc), byte(crc >> 8), byte(crc >> 16), byte(crc >> 24)}
	// failed entry's frame starts at the tail: its header (8) + filler (p+8) put the embedded frames at tail+8+p+8
	payload := append(append(make([]byte, p+8), e...), c...)
	g.do(fmt.Sprintf("app s %d:%s", g.next, hx(payload)))
	g.do("last")
	if g.do(fmt.Sprintf("app n %d:%s", g.next, hx(r.Bytes(p)))) == "ok" {
		g.next++
	}
	g.do("last")
	if g.do("recover "+g.infoArgs()) == "ok" {
		g.do("last")
		for idx := g.base; idx <= g.next+1; idx++ {
			g.do(fmt.Sprintf("get %d", idx))
		}
	}
	cs := &Case{ID: id, Props: []string{"C01", "C02", "C03", "C09", "C10", "C11", "C15"}, SpecProps: []string{"C09"}, Ops: g.ops, Impl: g.out, Exec: execSegment, Monitor: segMonitor}
	cs.Tags = []string{"stale-injection"}
	cs.NonTrivial = true
	cs.Shape = fmt.Sprintf("stale-injection/%d/%d", p, len(inner))
	return cs
}

func suiteSegment(seed uint64, tier string) *Report {
	rep := newReport("segment", seed, tier)
	rep.Rule = "generated workloads on one segment file through the real segment.Filer over simfs: appends of varied batch shapes/sizes until sealing, force-seal, I/O faults with partial writes, crash chains (in-flight append torn by an 8-byte-chunk mask, recovery, appends over the stale bytes with aligned shapes, tear again), damaged files (bit flips, splices, truncations, length edits, zero/garbage runs), sealed-reader and dump reads; every output and the file's length+CRC compared with Model.Segment. Non-trivial = hits sealing, a tear, a fault, damage or an error outcome; distinct by the set of such features, segment size and length class."
	r := NewRng(seed ^ 0x5e9)
	n := 300
	if tier == "thorough" {
		n = 5000
	}
	var cases []*Case
	for i := 0; i < n; i++ {
		cases = append(cases, genSegCase(r.Fork(), fmt.Sprintf("seg-%d-%d", seed, i), tier))
	}
	ninj := 6
	if tier == "thorough" {
		ninj = 60
	}
	for i := 0; i < ninj; i++ {
		cases = append(cases, genFrameInjectionCase(r.Fork(), fmt.Sprintf("seg-inject-%d-%d", seed, i)))
		cases = append(cases, genStaleCommitCase(r.Fork(), fmt.Sprintf("seg-stalecommit-%d-%d", seed, i)))
		if i < 2 {
			cases = append(cases, genStaleInjectionCase(r.Fork(), fmt.Sprintf("seg-staleinject-%d-%d", seed, i)))
		}
	}
	RunCases("segment", cases, rep)
	return rep
}

func init() { suites["segment"] = suiteSegment }
