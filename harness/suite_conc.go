package main

import (
	"bytes"
	"encoding/binary"
	"encoding/json"
	"errors"
	"fmt"
	"github.com/hashicorp/raft-wal/segment"
	"math"
	"os"
	"os/exec"
	"runtime"
	"runtime/debug"
	"sort"
	"strings"
	"sync"
	"sync/atomic"
	"time"

	"github.com/hashicorp/go-hclog"
	"github.com/hashicorp/raft"
	wal "github.com/hashicorp/raft-wal"
	"verifharness/simfs"
)

// conc suite (C06, C14, C13-with-readers): (i) forced schedules through the verif yield points and simfs hooks —
// a call is parked at a named point, other calls run to completion, the parked call is resumed and its outcome
// classified; (ii) free-running stress: N readers against one writer that appends with rotation, truncates head and
// tail and re-appends different content at reused indexes; every read is checked against the set of log versions
// that were current between its start and its end.

// ---- yield controller ----

type parker struct {
	mu     sync.Mutex
	armed  map[string]bool
	parked map[string]chan struct{} // point -> closed when a goroutine has parked there
	resume map[string]chan struct{}
}

func newParker() *parker {
	return &parker{armed: map[string]bool{}, parked: map[string]chan struct{}{}, resume: map[string]chan struct{}{}}
}

func (p *parker) arm(point string) {
	p.mu.Lock()
	p.armed[point] = true
	p.parked[point] = make(chan struct{})
	p.resume[point] = make(chan struct{})
	p.mu.Unlock()
}

func (p *parker) hit(point string) {
	p.mu.Lock()
	if !p.armed[point] {
		p.mu.Unlock()
		return
	}
	p.armed[point] = false
	pk, rs := p.parked[point], p.resume[point]
	p.mu.Unlock()
	close(pk)
	<-rs
}

func (p *parker) waitParked(point string, d time.Duration) bool {
	p.mu.Lock()
	pk := p.parked[point]
	p.mu.Unlock()
	select {
	case <-pk:
		return true
	case <-time.After(d):
		return false
	}
}

func (p *parker) release(point string) {
	p.mu.Lock()
	rs := p.resume[point]
	p.armed[point] = false
	p.mu.Unlock()
	if rs != nil {
		select {
		case <-rs:
		default:
			close(rs)
		}
	}
}

// outcome of a call run in its own goroutine
type callRes struct {
	out  string
	done chan struct{}
}

func goCall(f func() string) *callRes {
	r := &callRes{done: make(chan struct{})}
	go func() {
		defer close(r.done)
		defer func() {
			if x := recover(); x != nil {
				r.out = fmt.Sprintf("panic: %v", x)
			}
		}()
		r.out = f()
	}()
	return r
}

func (r *callRes) wait(d time.Duration) string {
	select {
	case <-r.done:
		return r.out
	case <-time.After(d):
		return "blocked"
	}
}

const concTimeout = 20 * time.Second // generous: only failing runs wait this long; a loaded machine must not look like a deadlock

type concEnv struct {
	d    *simfs.Disk
	w    *wal.WAL
	p    *parker
	logs map[uint64]string // index -> token key of what is currently stored
}

func newConcEnv(segSize int, n int) (*concEnv, error) {
	d := simfs.New()
	d.Record = false
	p := newParker()
	wal.SetVerifYield(p.hit)
	w, err := openWalOn(d, segSize, nil)
	if err != nil {
		return nil, err
	}
	e := &concEnv{d: d, w: w, p: p, logs: map[uint64]string{}}
	for i := 1; i <= n; i++ {
		l := &raft.Log{Index: uint64(i), Term: 1, Data: []byte(fmt.Sprintf("entry-%d-%s", i, strings.Repeat("x", 20)))}
		if err := w.StoreLogs([]*raft.Log{l}); err != nil {
			return nil, err
		}
		w.DeleteRange(math.MaxUint64, math.MaxUint64)
		e.logs[uint64(i)] = tokKey(logTok(l))
	}
	return e, nil
}

func (e *concEnv) close() {
	wal.SetVerifYield(nil)
	e.d.ReadHook = nil
	e.w.Close()
}

func readOutcome(w *wal.WAL, idx uint64) string {
	var l raft.Log
	if err := w.GetLog(idx, &l); err != nil {
		return walClass(err) + " (" + clipS(err.Error()) + ")"
	}
	return "ok " + tokKey(logTok(&l))
}

type schedule struct {
	name  string
	props []string
	run   func() (outcome string, viols []Violation)
	// model: the same schedule on Model.Conc (driver op) and how the real outcome maps onto the model's answer
	model     string
	implCanon func(outcome string) string
	// modelW: the same schedule on Model.ConcW (write path vs Close vs rotation)
	modelW     string
	implCanonW func(outcome string) string
}

// classify the parked call's result for comparison with the model
func callClass(outcome string) string {
	i := strings.Index(outcome, "call=")
	if i < 0 {
		return "?"
	}
	r := outcome[i+5:]
	switch {
	case strings.HasPrefix(r, "ok"):
		return "ok"
	case strings.HasPrefix(r, "err closed"):
		return "closed"
	case strings.HasPrefix(r, "err notfound"):
		return "notfound"
	case strings.HasPrefix(r, "panic"):
		return "panic"
	case strings.HasPrefix(r, "blocked"):
		return "blocked"
	default:
		return "file-closed"
	}
}

func concSchedules(seed uint64) []schedule {
	var out []schedule
	v := func(p, what, detail string, steps ...string) []Violation {
		return []Violation{{Property: p, What: what, Detail: detail, Ops: steps}}
	}
	// ---- C14: calls racing with Close, parked right after their closed-check ----
	type racer struct {
		point string
		call  func(e *concEnv) string
		okIf  func(out string, e *concEnv) bool
	}
	racers := []racer{
		{"FirstIndex:after-closed-check", func(e *concEnv) string {
			x, err := e.w.FirstIndex()
			if err != nil {
				return walClass(err) + " (" + err.Error() + ")"
			}
			return fmt.Sprintf("ok %d", x)
		}, func(out string, e *concEnv) bool { return out == "ok 1" || strings.HasPrefix(out, "err closed") }},
		{"LastIndex:after-closed-check", func(e *concEnv) string {
			x, err := e.w.LastIndex()
			if err != nil {
				return walClass(err) + " (" + err.Error() + ")"
			}
			return fmt.Sprintf("ok %d", x)
		}, func(out string, e *concEnv) bool { return out == "ok 6" || strings.HasPrefix(out, "err closed") }},
		{"GetLog:after-closed-check", func(e *concEnv) string { return readOutcome(e.w, 2) },
			func(out string, e *concEnv) bool {
				return out == "ok "+e.logs[2] || strings.HasPrefix(out, "err closed")
			}},
		{"acquireState:between-load-and-acquire", func(e *concEnv) string { return readOutcome(e.w, 2) },
			func(out string, e *concEnv) bool {
				return out == "ok "+e.logs[2] || strings.HasPrefix(out, "err closed")
			}},
		{"StoreLogs:before-lock", func(e *concEnv) string {
			err := e.w.StoreLogs([]*raft.Log{{Index: 7, Term: 2, Data: []byte("late")}})
			if err != nil {
				return walClass(err) + " (" + clipS(err.Error()) + ")"
			}
			return "ok"
		}, func(out string, e *concEnv) bool { return out == "ok" || strings.HasPrefix(out, "err closed") }},
		{"DeleteRange:before-lock", func(e *concEnv) string {
			err := e.w.DeleteRange(1, 2)
			if err != nil {
				return walClass(err) + " (" + clipS(err.Error()) + ")"
			}
			return "ok"
		}, func(out string, e *concEnv) bool { return out == "ok" || strings.HasPrefix(out, "err closed") }},
		{"Set:after-closed-check", func(e *concEnv) string {
			err := e.w.Set([]byte("k"), []byte("v"))
			if err != nil {
				return walClass(err) + " (" + clipS(err.Error()) + ")"
			}
			return "ok"
		}, func(out string, e *concEnv) bool { return out == "ok" || strings.HasPrefix(out, "err closed") }},
		{"Get:after-closed-check", func(e *concEnv) string {
			_, err := e.w.Get([]byte("k"))
			if err != nil {
				return walClass(err) + " (" + clipS(err.Error()) + ")"
			}
			return "ok"
		}, func(out string, e *concEnv) bool { return out == "ok" || strings.HasPrefix(out, "err closed") }},
	}
	for _, segSize := range []int{200, 4096} {
		for _, rc := range racers {
			rc, segSize := rc, segSize
			var model string
			var canon func(string) string
			closer := "c,c,c,c,c,c"
			switch rc.point {
			case "FirstIndex:after-closed-check", "LastIndex:after-closed-check", "GetLog:after-closed-check":
				model = "conc 1,2 1 - r0," + closer + ",r0,r0,r0,r0"
				canon = func(o string) string {
					return fmt.Sprintf("readers=[%s] close=done writer-pending=0 double-close=false", callClass(o))
				}
			case "acquireState:between-load-and-acquire":
				model = "conc 1,2 1 - r0,r0," + closer + ",r0,r0,r0"
				canon = func(o string) string {
					return fmt.Sprintf("readers=[%s] close=done writer-pending=0 double-close=false", callClass(o))
				}
			case "StoreLogs:before-lock", "DeleteRange:before-lock":
				model = "conc 1,2 - 1,2|3 " + closer + ",w"
				canon = func(o string) string {
					n := 1
					if callClass(o) == "closed" {
						n = 0
					}
					return fmt.Sprintf("readers=[] close=done writer-pending=%d double-close=false", n)
				}
			}
			var modelW string
			var canonW func(string) string
			if rc.point == "StoreLogs:before-lock" || rc.point == "DeleteRange:before-lock" {
				// the writer has passed its first closed check; Close runs to completion; the rotation goroutine sees the
				// closed trigger channel and exits; the writer resumes: lock, (no rotation pending), re-check
				modelW = "concw 0 w0,c,c,c,r,r,r,w0,w0,w0,w0"
				canonW = func(o string) string {
					return fmt.Sprintf("writers=[%s] close=done rotator=exited rotations=0 panic=false io-after-close=false", callClass(o))
				}
			}
			out = append(out, schedule{name: fmt.Sprintf("close-vs-%s/seg%d", rc.point, segSize), props: []string{"C14"}, model: model, implCanon: canon, modelW: modelW, implCanonW: canonW, run: func() (string, []Violation) {
				e, err := newConcEnv(segSize, 6)
				if err != nil {
					return "setup-err", nil
				}
				defer e.close()
				steps := []string{fmt.Sprintf("6 entries, segment size %d", segSize), "call parked at " + rc.point, "Close() runs to completion", "parked call resumed"}
				e.p.arm(rc.point)
				call := goCall(func() string { return rc.call(e) })
				if !e.p.waitParked(rc.point, concTimeout) {
					return "not-parked", nil
				}
				cl := goCall(func() string { return walClass(e.w.Close()) })
				clOut := cl.wait(concTimeout)
				e.p.release(rc.point)
				res := call.wait(concTimeout)
				outcome := fmt.Sprintf("close=%s call=%s", clOut, res)
				var viols []Violation
				switch {
				case strings.HasPrefix(res, "panic"):
					viols = v("C14", "a call racing with Close panicked", res, steps...)
				case res == "blocked" || clOut == "blocked":
					viols = v("C14", "a call racing with Close (or Close itself) never returned", outcome, steps...)
				case !rc.okIf(res, e):
					viols = v("C14", "a call racing with Close returned neither a correct result nor ErrClosed", res, steps...)
				}
				// after Close returned everything must answer ErrClosed, a second Close is a no-op
				if _, err := e.w.FirstIndex(); err == nil || walClass(err) != "err closed" {
					viols = append(viols, v("C14", "FirstIndex after Close did not return ErrClosed", fmt.Sprint(err), steps...)...)
				}
				if err := e.w.StoreLogs([]*raft.Log{{Index: 99}}); walClass(err) != "err closed" {
					viols = append(viols, v("C14", "StoreLogs after Close did not return ErrClosed", fmt.Sprint(err), steps...)...)
				}
				if err := e.w.Close(); err != nil {
					viols = append(viols, v("C14", "second Close returned an error", err.Error(), steps...)...)
				}
				return outcome, viols
			}})
		}
	}
	// ---- C14: a writer waiting for the rotation when Close arrives ----
	out = append(out, schedule{name: "close-vs-await-rotation", props: []string{"C14"},
		// writer 0 seals (queues a rotation); the rotation goroutine does not run yet; writer 1 takes the lock, sees the
		// pending rotation and waits; Close runs; the rotator and writer 1 resume
		modelW: "concw 1,0 w0,w0,w0,w0,w0,w1,w1,w1,c,c,c,r,r,r,w1,w1,w1,w1",
		implCanonW: func(o string) string {
			st := "?"
			if i := strings.Index(o, "store2="); i >= 0 {
				switch {
				case strings.HasPrefix(o[i+7:], "ok"):
					st = "ok"
				case strings.HasPrefix(o[i+7:], "err closed"):
					st = "closed"
				case strings.HasPrefix(o[i+7:], "panic"):
					st = "panic"
				default:
					st = o[i+7:]
				}
			}
			cl := "running"
			if strings.Contains(o, "close=ok") {
				cl = "done"
			}
			return fmt.Sprintf("writers=[ok %s] close=%s rotator=exited rotations=0 panic=false io-after-close=false", st, cl)
		},
		run: func() (string, []Violation) {
			e, err := newConcEnv(150, 0)
			if err != nil {
				return "setup-err", nil
			}
			defer e.close()
			steps := []string{"segment size 150", "StoreLogs #1 fills the segment; the rotation goroutine is parked before taking the lock",
				"StoreLogs #2 is parked waiting for the rotation", "Close() runs", "everything resumed"}
			e.p.arm("runRotate:before-lock")
			big := &raft.Log{Index: 1, Term: 1, Data: []byte(strings.Repeat("a", 200))}
			if err := e.w.StoreLogs([]*raft.Log{big}); err != nil {
				return "setup-err " + err.Error(), nil
			}
			if !e.p.waitParked("runRotate:before-lock", concTimeout) {
				return "rotation-not-triggered", nil
			}
			e.p.arm("awaitRotation:before-receive")
			st2 := goCall(func() string {
				err := e.w.StoreLogs([]*raft.Log{{Index: 2, Term: 1, Data: []byte("second")}})
				if err != nil {
					return walClass(err)
				}
				return "ok"
			})
			if !e.p.waitParked("awaitRotation:before-receive", concTimeout) {
				return "writer-not-waiting", nil
			}
			cl := goCall(func() string { return walClass(e.w.Close()) })
			clOut := cl.wait(concTimeout)
			e.p.release("awaitRotation:before-receive")
			e.p.release("runRotate:before-lock")
			res := st2.wait(concTimeout)
			outcome := fmt.Sprintf("close=%s store2=%s", clOut, res)
			if res == "blocked" || clOut == "blocked" {
				return outcome, v("C14", "StoreLogs waiting for a rotation is never woken when Close wins the race (deadlock)", outcome, steps...)
			}
			if strings.HasPrefix(res, "panic") {
				return outcome, v("C14", "a call racing with Close panicked", res, steps...)
			}
			if res != "ok" && res != "err closed" {
				return outcome, v("C14", "a call racing with Close returned neither a correct result nor ErrClosed", res, steps...)
			}
			return outcome, nil
		}})
	// ---- C14: two Close calls overlap ----
	out = append(out, schedule{name: "close-vs-close", props: []string{"C14"}, run: func() (string, []Violation) {
		e, err := newConcEnv(4096, 3)
		if err != nil {
			return "setup-err", nil
		}
		defer e.close()
		steps := []string{"3 entries", "Close A parked before it takes the write lock", "Close B runs to completion", "Close A resumed", "a third Close"}
		e.p.arm("Close:before-lock")
		a := goCall(func() string { return walClass(e.w.Close()) })
		if !e.p.waitParked("Close:before-lock", concTimeout) {
			return "not-parked", nil
		}
		b := goCall(func() string { return walClass(e.w.Close()) }).wait(concTimeout)
		e.p.release("Close:before-lock")
		ra := a.wait(concTimeout)
		c3 := goCall(func() string { return walClass(e.w.Close()) }).wait(concTimeout)
		outcome := fmt.Sprintf("closeA=%s closeB=%s closeC=%s", ra, b, c3)
		var viols []Violation
		for _, r := range []string{ra, b, c3} {
			if strings.HasPrefix(r, "panic") {
				viols = append(viols, v("C14", "overlapping Close calls panic", outcome, steps...)...)
				break
			}
			if r == "blocked" {
				viols = append(viols, v("C14", "overlapping Close calls never return", outcome, steps...)...)
				break
			}
			if r != "ok" {
				viols = append(viols, v("C14", "a further Close call is not a no-op", outcome, steps...)...)
				break
			}
		}
		if _, err := e.w.FirstIndex(); err == nil || walClass(err) != "err closed" {
			viols = append(viols, v("C14", "FirstIndex after Close did not return ErrClosed", fmt.Sprint(err), steps...)...)
		}
		return outcome, viols
	}})
	// ---- C14: a rotation queued by the last append, not yet started when Close runs ----
	out = append(out, schedule{name: "close-vs-queued-rotation", props: []string{"C14"},
		modelW: "concw 1 w0,w0,w0,w0,w0,c,c,c,r,r,r,r",
		implCanonW: func(o string) string {
			cl := "running"
			if strings.Contains(o, "close=ok,ok") {
				cl = "done"
			}
			io := "false"
			if !strings.Contains(o, "io-after-close=0") {
				io = "true"
			}
			return fmt.Sprintf("writers=[ok] close=%s rotator=exited rotations=0 panic=false io-after-close=%s", cl, io)
		},
		run: func() (string, []Violation) {
			e, err := newConcEnv(150, 0)
			if err != nil {
				return "setup-err", nil
			}
			defer e.close()
			steps := []string{"segment size 150", "StoreLogs fills the segment; the rotation goroutine is parked before taking the lock",
				"Close() runs to completion (twice)", "the rotation goroutine is resumed", "FirstIndex/StoreLogs are called"}
			e.p.arm("runRotate:before-lock")
			big := &raft.Log{Index: 1, Term: 1, Data: []byte(strings.Repeat("a", 200))}
			if err := e.w.StoreLogs([]*raft.Log{big}); err != nil {
				return "setup-err " + err.Error(), nil
			}
			if !e.p.waitParked("runRotate:before-lock", concTimeout) {
				return "rotation-not-triggered", nil
			}
			c1 := goCall(func() string { return walClass(e.w.Close()) }).wait(concTimeout)
			c2 := goCall(func() string { return walClass(e.w.Close()) }).wait(concTimeout)
			nev := e.d.NumEvents()
			e.p.release("runRotate:before-lock")
			time.Sleep(150 * time.Millisecond) // a panic in the rotation goroutine kills this (child) process here
			_, ferr := e.w.FirstIndex()
			serr := e.w.StoreLogs([]*raft.Log{{Index: 2, Term: 1, Data: []byte("late")}})
			outcome := fmt.Sprintf("close=%s,%s first=%s store=%s io-after-close=%d", c1, c2, walClass(ferr), walClass(serr), e.d.NumEvents()-nev)
			var viols []Violation
			if c1 == "blocked" || c2 == "blocked" {
				viols = append(viols, v("C14", "Close blocks while a rotation is queued", outcome, steps...)...)
			}
			if walClass(ferr) != "err closed" || walClass(serr) != "err closed" {
				viols = append(viols, v("C14", "a call after Close does not return ErrClosed", outcome, steps...)...)
			}
			if e.d.NumEvents() != nev {
				viols = append(viols, v("C14", "the rotation queued before Close performed I/O after Close had returned", outcome, steps...)...)
			}
			// "everything acknowledged before Close is present after the next Open" — Close won the race with the rotation
			// of the sealing append: the next Open finds the tail sealed on disk and unsealed in the meta store
			for round := 0; round < 2; round++ {
				w2, oerr := openWalOn(e.d, 150, nil)
				if oerr != nil {
					viols = append(viols, v("C14", "Open fails after a Close that raced with a queued rotation", oerr.Error(), append(steps, "Open")...)...)
					break
				}
				got := readOutcome(w2, 1)
				fi, _ := w2.FirstIndex()
				la, _ := w2.LastIndex()
				w2.Close()
				if got != "ok "+tokKey(logTok(big)) || fi != 1 || la != 1 {
					viols = append(viols, v("C14", "an entry acknowledged before Close is not present after the next Open", fmt.Sprintf("Open #%d: first=%d last=%d GetLog(1)=%s", round+1, fi, la, clipS(got)), append(steps, "Open (twice)")...)...)
					break
				}
			}
			return outcome, viols
		}})
	// ---- C14: after Close, with no read in flight, every file handle is released (real files; collector off) ----
	for _, shape := range []string{"first-append-at-1", "first-append-at-1000", "rotations", "truncations", "emptied-and-restarted"} {
		shape := shape
		out = append(out, schedule{name: "close-releases-files-" + shape, props: []string{"C14"},
			run: func() (string, []Violation) {
				debug.SetGCPercent(-1) // the schedule runs in its own process: finalizers of the collector must not do Close's work
				base := os.Getenv("VERIF_TMP")
				if base == "" {
					base = os.TempDir()
				}
				dir, err := os.MkdirTemp(base, "verif-closefd-")
				if err != nil {
					return "setup-err", nil
				}
				defer os.RemoveAll(dir)
				w, err := wal.Open(dir, wal.WithSegmentSize(4096), wal.WithLogger(hclog.NewNullLogger()))
				if err != nil {
					return "setup-err " + err.Error(), nil
				}
				steps := []string{"real directory, segment size 4096, garbage collector off", "workload: " + shape, "Close()", "the descriptor table of the process is listed"}
				next := uint64(1)
				if shape == "first-append-at-1000" {
					next = 1000
				}
				app := func(n, size int) {
					for i := 0; i < n; i++ {
						w.StoreLogs([]*raft.Log{{Index: next, Term: 1, Data: []byte(strings.Repeat("d", size))}})
						w.DeleteRange(math.MaxUint64, math.MaxUint64)
						next++
					}
				}
				first := next
				switch shape {
				case "first-append-at-1", "first-append-at-1000":
					app(3, 50)
				case "rotations":
					app(12, 1500)
				case "truncations":
					app(12, 1500)
					w.DeleteRange(first, first+4)
					w.DeleteRange(next-3, next-1)
					next -= 3
					app(2, 100)
				case "emptied-and-restarted":
					app(5, 1500)
					w.DeleteRange(first, next-1)
					next += 50
					app(3, 100)
				}
				var l raft.Log
				w.GetLog(next-1, &l)
				cerr := w.Close()
				open := fdsUnder(dir)
				outcome := fmt.Sprintf("close=%s open-after-close=%v", walClass(cerr), open)
				if len(open) > 0 {
					return outcome, v("C14", "file handles are still open after Close returned although no read is in flight", outcome, steps...)
				}
				return outcome, nil
			}})
	}
	// ---- C06: a rotation queued by a sealing append, not yet started when a truncation of the whole log arrives ----
	for _, whole := range []string{"exact", "beyond"} {
		whole := whole
		out = append(out, schedule{name: "queued-rotation-vs-delete-all-" + whole, props: []string{"C06"},
			run: func() (string, []Violation) {
				e, err := newConcEnv(150, 0)
				if err != nil {
					return "setup-err", nil
				}
				defer e.close()
				steps := []string{"segment size 150", "StoreLogs [1..3] fills the segment; the rotation goroutine is parked before taking the lock",
					"readers run FirstIndex / LastIndex / GetLog(LastIndex) in a loop", "DeleteRange over the whole log is issued", "the rotation goroutine is resumed",
					"everything has returned: FirstIndex, LastIndex, GetLog(LastIndex), StoreLogs at another index"}
				e.p.arm("runRotate:before-lock")
				e.p.arm("awaitRotation:before-receive")
				logs := []*raft.Log{{Index: 1, Term: 1, Data: []byte(strings.Repeat("a", 60))}, {Index: 2, Term: 1, Data: []byte(strings.Repeat("b", 60))}, {Index: 3, Term: 1, Data: []byte(strings.Repeat("c", 60))}}
				if err := e.w.StoreLogs(logs); err != nil {
					return "setup-err " + err.Error(), nil
				}
				if !e.p.waitParked("runRotate:before-lock", concTimeout) {
					return "rotation-not-triggered", nil
				}
				stop := make(chan struct{})
				var wg sync.WaitGroup
				var mu sync.Mutex
				bad := ""
				for g := 0; g < 3; g++ {
					wg.Add(1)
					go func() {
						defer wg.Done()
						for {
							select {
							case <-stop:
								return
							default:
							}
							// the log only ever holds [1..3] or nothing during this schedule: LastIndex is 3 or 0, entry 3 is intact
							// whenever it is returned
							la, err := e.w.LastIndex()
							if err == nil && la != 0 && la != 3 {
								mu.Lock()
								bad = fmt.Sprintf("LastIndex=%d (the log held [1..3] or nothing)", la)
								mu.Unlock()
							}
							if o := readOutcome(e.w, 3); strings.HasPrefix(o, "ok") && o != "ok "+tokKey(logTok(logs[2])) {
								mu.Lock()
								bad = "GetLog(3) returned something else than the stored entry: " + o
								mu.Unlock()
							}
						}
					}()
				}
				mx := uint64(3)
				if whole == "beyond" {
					mx = math.MaxUint64 - 1
				}
				del := goCall(func() string { return walClass(e.w.DeleteRange(1, mx)) })
				// the truncation either waits for the queued rotation (it is then parked at the wait) or has gone ahead
				waited := e.p.waitParked("awaitRotation:before-receive", 300*time.Millisecond)
				e.p.release("runRotate:before-lock")
				e.p.release("awaitRotation:before-receive")
				dres := del.wait(concTimeout)
				e.w.DeleteRange(math.MaxUint64, math.MaxUint64) // the rotation, if still queued, has run when this returns
				time.Sleep(20 * time.Millisecond)
				close(stop)
				wg.Wait()
				fi, _ := e.w.FirstIndex()
				la, _ := e.w.LastIndex()
				g := "-"
				if la != 0 {
					g = readOutcome(e.w, la)
				}
				serr := e.w.StoreLogs([]*raft.Log{{Index: 50, Term: 2, Data: []byte("after")}})
				outcome := fmt.Sprintf("waited=%v del=%s first=%d last=%d get(last)=%s store50=%s", waited, dres, fi, la, clipS(g), walClass(serr))
				var viols []Violation
				if dres == "blocked" {
					viols = append(viols, v("C06", "DeleteRange never returned with a rotation queued", outcome, steps...)...)
				}
				if bad != "" {
					viols = append(viols, v("C06", "a concurrent read observed a value true in no state of the log", bad+" | "+outcome, steps...)...)
				}
				if dres == "ok" && (fi != 0 || la != 0) {
					viols = append(viols, v("C06", "after the whole log was removed and everything returned, FirstIndex/LastIndex still name entries (a value true in no current state)", outcome, steps...)...)
				}
				if la != 0 && !strings.HasPrefix(g, "ok") {
					viols = append(viols, v("C06", "LastIndex names an entry GetLog cannot return although no call is running", outcome, steps...)...)
				}
				return outcome, viols
			}})
	}
	// ---- C06 / C13: a reader pinning an old state across truncations ----
	for _, kind := range []string{"head", "tail"} {
		kind := kind
		pm := "conc 1,2,3 1 2,3|4 r0,r0,r0,w,w,w,w,w,r0,r0"
		if kind == "tail" {
			pm = "conc 1,2,3 3 1,2|4 r0,r0,r0,w,w,w,w,w,r0,r0"
		}
		out = append(out, schedule{name: "pinned-reader-vs-" + kind + "-truncation", props: []string{"C06", "C13"}, model: pm,
			implCanon: func(o string) string {
				c := "file-closed"
				if strings.HasPrefix(o, "reader=ok") {
					c = "ok"
				} else if strings.HasPrefix(o, "reader=err notfound") {
					c = "notfound"
				}
				return fmt.Sprintf("readers=[%s] close=running writer-pending=0 double-close=false", c)
			}, run: func() (string, []Violation) {
				e, err := newConcEnv(200, 8) // several segments
				if err != nil {
					return "setup-err", nil
				}
				defer e.close()
				before := e.d.FileNames()
				// reader of an index that the truncation removes, parked inside its first ReadAt (it holds a reference)
				victim := uint64(1)
				if kind == "tail" {
					victim = 8
				}
				parkedRead := make(chan struct{})
				resumeRead := make(chan struct{})
				var once sync.Once
				e.d.ReadHook = func(name string) {
					once.Do(func() { close(parkedRead); <-resumeRead })
				}
				rd := goCall(func() string { return readOutcome(e.w, victim) })
				select {
				case <-parkedRead:
				case <-time.After(concTimeout):
					return "reader-not-parked", nil
				}
				e.d.ReadHook = nil
				var terr error
				if kind == "head" {
					terr = e.w.DeleteRange(1, 5)
				} else {
					terr = e.w.DeleteRange(4, 8)
				}
				steps := []string{"8 entries over several segments", fmt.Sprintf("GetLog(%d) parked inside its first file read (holds a reference to the state)", victim),
					kind + " truncation runs to completion", "reader resumed"}
				var viols []Violation
				if terr != nil {
					viols = append(viols, v("C06", "truncation failed while a reader was in flight", terr.Error(), steps...)...)
				}
				during := e.d.FileNames()
				// an entry that stays in the log must be readable while the old state is pinned
				stay := uint64(6)
				if kind == "tail" {
					stay = 2
				}
				if o := readOutcome(e.w, stay); o != "ok "+e.logs[stay] {
					viols = append(viols, v("C06", "an entry that stays in the log was not returned intact during a truncation", o, steps...)...)
				}
				if len(during) < len(before) {
					// files deleted while a reader still references the old state
					viols = append(viols, v("C06", "segment files were deleted while a reader still held the replaced state", fmt.Sprintf("%d files before, %d during", len(before), len(during)), steps...)...)
				}
				close(resumeRead)
				res := rd.wait(concTimeout)
				if res == "blocked" || strings.HasPrefix(res, "panic") {
					viols = append(viols, v("C06", "pinned reader did not complete", res, steps...)...)
				} else if res != "ok "+e.logs[victim] && !strings.HasPrefix(res, "err notfound") {
					// an error other than not-found is only allowed for an index removed during the read: it was — but the
					// reader held a reference taken while the state was current, so its files must still be open
					viols = append(viols, v("C06", "a reader that pinned the state before the truncation got a wrong result", res, steps...)...)
				}
				// once the reader is done the files of wholly deleted segments must be gone (C13)
				deadline := time.Now().Add(concTimeout)
				for {
					ps := e.d.MetaState()
					live := map[string]bool{}
					for _, si := range ps.Segments {
						live[segmentName(si.BaseIndex, si.ID)] = true
					}
					extra := 0
					for _, n := range e.d.FileNames() {
						if !live[n] {
							extra++
						}
					}
					if extra == 0 {
						break
					}
					if time.Now().After(deadline) {
						viols = append(viols, v("C13", "files of wholly deleted segments still present after the last reader released the old state", strings.Join(e.d.FileNames(), " "), steps...)...)
						break
					}
					time.Sleep(time.Millisecond)
				}
				return fmt.Sprintf("reader=%s files %d->%d->%d", clipS(res), len(before), len(during), len(e.d.FileNames())), viols
			}})
	}
	// ---- C06: a reader that loaded the state pointer but has not taken its reference yet ----
	out = append(out, schedule{name: "late-acquire-vs-head-truncation", props: []string{"C06"}, model: "conc 1,2,3 3 2,3|4 r0,r0,w,w,w,w,w,r0,r0,r0",
		implCanon: func(o string) string {
			c := "file-closed"
			if strings.HasPrefix(o, "reader=ok") {
				c = "ok"
			}
			return fmt.Sprintf("readers=[%s] close=running writer-pending=0 double-close=false", c)
		}, run: func() (string, []Violation) {
			e, err := newConcEnv(200, 8)
			if err != nil {
				return "setup-err", nil
			}
			defer e.close()
			steps := []string{"8 entries over several segments", "GetLog(7) parked between loading the state pointer and taking its reference",
				"DeleteRange(1,5) runs to completion (its finalizer closes and deletes the old segments)", "reader resumed"}
			e.p.arm("acquireState:between-load-and-acquire")
			rd := goCall(func() string { return readOutcome(e.w, 7) })
			if !e.p.waitParked("acquireState:between-load-and-acquire", concTimeout) {
				return "not-parked", nil
			}
			terr := e.w.DeleteRange(1, 5)
			e.p.release("acquireState:between-load-and-acquire")
			res := rd.wait(concTimeout)
			var viols []Violation
			if terr != nil {
				viols = append(viols, v("C06", "truncation failed", terr.Error(), steps...)...)
			}
			if res != "ok "+e.logs[7] {
				viols = append(viols, v("C06", "an entry that stays in the log throughout the read was not returned intact", res, steps...)...)
			}
			return "reader=" + clipS(res), viols
		}})
	// ---- C06: visibility only once durable ----
	// a reader looks at the log from inside EVERY VFS write and fsync the append performs (before the call takes effect):
	// until the append's last fsync has returned, nothing of the batch may be visible. Variants: an ordinary append, an
	// append that fills (seals) the segment, and both with the last fsync failing (the failed batch must stay invisible).
	for _, sealing := range []bool{false, true} {
		for _, failLast := range []bool{false, true} {
			sealing, failLast := sealing, failLast
			name := fmt.Sprintf("visible-only-once-durable/sealing=%v/fail-last-fsync=%v", sealing, failLast)
			out = append(out, schedule{name: name, props: []string{"C06", "C10"}, run: func() (string, []Violation) {
				segSize := 4096
				if sealing {
					segSize = 600
				}
				e, err := newConcEnv(segSize, 3)
				if err != nil {
					return "setup-err", nil
				}
				defer e.close()
				payload := []byte("four")
				if sealing {
					payload = bytes.Repeat([]byte("4"), 700) // fills the 600-byte segment
				}
				steps := []string{fmt.Sprintf("3 entries, segment size %d", segSize), fmt.Sprintf("StoreLogs(4,5) (first entry %d bytes) observed from inside every VFS write and fsync of the call, before it takes effect", len(payload))}
				if failLast {
					steps = append(steps, "the last fsync of the call fails")
				}
				var mu sync.Mutex
				var seen []string
				nsync := 0
				// count the fsyncs of a dry run to know which one is the last
				total := 0
				if failLast {
					e2, err := newConcEnv(segSize, 3)
					if err != nil {
						return "setup-err", nil
					}
					e2.d.Before = func(ev *simfs.Event) {
						if ev.Kind == "sync" && strings.HasSuffix(ev.Name, ".wal") {
							total++
						}
					}
					e2.w.StoreLogs([]*raft.Log{{Index: 4, Term: 1, Data: payload}, {Index: 5, Term: 1, Data: []byte("five")}})
					e2.d.Before = nil
					e2.close()
					wal.SetVerifYield(e.p.hit)
				}
				_ = total
				inCall := int32(1)
				e.d.Before = func(ev *simfs.Event) {
					if atomic.LoadInt32(&inCall) == 0 || !strings.HasSuffix(ev.Name, ".wal") || (ev.Kind != "write" && ev.Kind != "sync") {
						return
					}
					last, _ := e.w.LastIndex()
					get := readOutcome(e.w, 4)
					mu.Lock()
					seen = append(seen, fmt.Sprintf("%s: LastIndex=%d GetLog(4)=%s", ev.Kind, last, clipS(get)))
					mu.Unlock()
				}
				if failLast {
					e.d.Fault = func(kind string, call int, name string) *simfs.FaultAction {
						if kind == "sync" && strings.HasSuffix(name, ".wal") {
							nsync++
							if nsync == total {
								return &simfs.FaultAction{}
							}
						}
						return nil
					}
				}
				err = e.w.StoreLogs([]*raft.Log{{Index: 4, Term: 1, Data: payload}, {Index: 5, Term: 1, Data: []byte("five")}})
				atomic.StoreInt32(&inCall, 0)
				e.d.Before = nil
				e.d.Fault = nil
				var viols []Violation
				for _, sn := range seen {
					if !strings.Contains(sn, "LastIndex=3 ") || !strings.Contains(sn, "GetLog(4)=err notfound") {
						viols = append(viols, v("C06", "entries of a batch were visible to readers before the batch was durable", sn, steps...)...)
						break
					}
				}
				after, _ := e.w.LastIndex()
				if failLast {
					if err == nil {
						return "store-unexpectedly-ok", nil
					}
					if after != 3 {
						det := fmt.Sprintf("StoreLogs returned %v, LastIndex=%d (acknowledged: 3)", err, after)
						viols = append(viols, v("C10", "entries of a failed StoreLogs are visible to readers", det, steps...)...)
						viols = append(viols, v("C06", "entries of a batch that never became durable are visible to readers", det, steps...)...)
					}
				} else if err != nil {
					return "store-err", nil
				}
				return fmt.Sprintf("probes=%d after=%d", len(seen), after), viols
			}})
		}
	}
	return out
}

func segmentName(base, id uint64) string { return fmt.Sprintf("%020d-%016x.wal", base, id) }

// ---- free-running stress with a version-interval check ----

type snap struct {
	first, last uint64
	content     map[uint64]string
}

func stressRun(seed uint64, dur time.Duration, readers int) (reads int, viols []Violation, dist map[string]int) {
	dist = map[string]int{}
	d := simfs.New()
	d.Record = false
	wal.SetVerifYield(nil)
	w, err := openWalOn(d, 300, nil)
	if err != nil {
		return 0, []Violation{{Property: "C06", What: "setup failed", Detail: err.Error()}}, dist
	}
	defer w.Close()
	var version int64
	var mu sync.RWMutex
	snaps := []snap{{content: map[uint64]string{}}}
	cur := snap{content: map[uint64]string{}}
	var pending atomic.Value // *snap: the state the operation in flight will produce
	copySnap := func(s snap) *snap {
		c := snap{first: s.first, last: s.last, content: map[uint64]string{}}
		for k, v := range s.content {
			c.content[k] = v
		}
		return &c
	}
	announce := func(next snap) { pending.Store(copySnap(next)) }
	publish := func() {
		c := copySnap(cur)
		mu.Lock()
		snaps = append(snaps, *c)
		mu.Unlock()
		atomic.AddInt64(&version, 1)
	}
	stop := make(chan struct{})
	var wg sync.WaitGroup
	var vmu sync.Mutex
	addV := func(v Violation) {
		vmu.Lock()
		if len(viols) < 5 {
			viols = append(viols, v)
		}
		vmu.Unlock()
	}
	var nreads int64
	for r := 0; r < readers; r++ {
		wg.Add(1)
		go func(r int) {
			defer wg.Done()
			rng := NewRng(seed*31 + uint64(r))
			for {
				select {
				case <-stop:
					return
				default:
				}
				v0 := atomic.LoadInt64(&version)
				pend0, _ := pending.Load().(*snap)
				mu.RLock()
				hint := snaps[v0]
				mu.RUnlock()
				var idx uint64
				if hint.last > 0 {
					idx = hint.first + uint64(rng.Intn(int(hint.last-hint.first)+3))
					if idx > 0 && rng.Chance(1, 8) {
						idx--
					}
				} else {
					idx = uint64(rng.Intn(5))
				}
				kind := rng.Intn(4)
				var got string
				var panicked any
				func() {
					defer func() { panicked = recover() }()
					switch kind {
					case 0:
						x, err := w.FirstIndex()
						got = fmt.Sprintf("first %d %v", x, err)
					case 1:
						x, err := w.LastIndex()
						got = fmt.Sprintf("last %d %v", x, err)
					default:
						got = readOutcome(w, idx)
					}
				}()
				v1 := atomic.LoadInt64(&version)
				pend, _ := pending.Load().(*snap)
				atomic.AddInt64(&nreads, 1)
				if panicked != nil {
					addV(Violation{Property: "C06", What: "a concurrent read panicked", Detail: fmt.Sprint(panicked)})
					return
				}
				mu.RLock()
				hi := int(v1) + 1
				if hi >= len(snaps) {
					hi = len(snaps) - 1
				}
				window := append([]snap(nil), snaps[v0:hi+1]...)
				mu.RUnlock()
				if pend0 != nil {
					window = append(window, *pend0)
				}
				if pend != nil {
					window = append(window, *pend)
				}
				ok := false
				for _, s := range window {
					switch kind {
					case 0:
						if got == fmt.Sprintf("first %d <nil>", s.first) {
							ok = true
						}
					case 1:
						if got == fmt.Sprintf("last %d <nil>", s.last) {
							ok = true
						}
					default:
						if c, in := s.content[idx]; in {
							if got == "ok "+c {
								ok = true
							}
						} else if strings.HasPrefix(got, "err notfound") {
							ok = true
						}
					}
				}
				if !ok && kind >= 2 && strings.HasPrefix(got, "err") && !strings.HasPrefix(got, "err notfound") {
					// an error other than not-found is admissible only if the index was removed (or replaced) during the read
					removed := false
					for k := 0; k+1 < len(window); k++ {
						c0, in0 := window[k].content[idx]
						c1, in1 := window[k+1].content[idx]
						if in0 && (!in1 || c0 != c1) {
							removed = true
						}
					}
					if removed {
						ok = true
						vmu.Lock()
						dist["error-for-removed-index"]++
						vmu.Unlock()
					}
				}
				if !ok {
					addV(Violation{Property: "C06", What: "a concurrent read returned a value that was not true in any log state current during the call",
						Detail: fmt.Sprintf("read kind %d index %d -> %s; versions %d..%d", kind, idx, clipS(got), v0, hi)})
					return
				}
			}
		}(r)
	}
	// the writer
	rng := NewRng(seed)
	deadline := time.Now().Add(dur)
	gen := 0
	mk := func(i uint64) *raft.Log {
		gen++
		return &raft.Log{Index: i, Term: uint64(gen), Data: []byte(fmt.Sprintf("g%d-i%d-%s", gen, i, strings.Repeat("p", rng.Intn(60))))}
	}
	for time.Now().Before(deadline) && len(viols) == 0 {
		switch x := rng.Intn(10); {
		case x < 6 || cur.last == 0 || cur.last-cur.first < 4:
			n := 1 + rng.Intn(3)
			start := cur.last + 1
			if cur.last == 0 {
				start = cur.first + 1
				if start < 1 {
					start = 1
				}
				if len(cur.content) == 0 && cur.first == 0 {
					start = 1
				}
			}
			var logs []*raft.Log
			for j := 0; j < n; j++ {
				logs = append(logs, mk(start+uint64(j)))
			}
			nx := *copySnap(cur)
			if len(nx.content) == 0 {
				nx.first = start
			}
			for _, l := range logs {
				nx.content[l.Index] = tokKey(logTok(l))
			}
			nx.last = start + uint64(n) - 1
			announce(nx)
			if err := w.StoreLogs(logs); err != nil {
				addV(Violation{Property: "C06", What: "writer append failed during stress", Detail: err.Error()})
				break
			}
			cur = nx
			publish()
			vmu.Lock()
			dist["append"]++
			vmu.Unlock()
		case x < 8:
			upto := cur.first + uint64(rng.Intn(int(cur.last-cur.first)))
			nx := *copySnap(cur)
			for i := nx.first; i <= upto; i++ {
				delete(nx.content, i)
			}
			nx.first = upto + 1
			announce(nx)
			if err := w.DeleteRange(cur.first, upto); err != nil {
				addV(Violation{Property: "C06", What: "head truncation failed during stress", Detail: err.Error()})
				break
			}
			cur = nx
			publish()
			vmu.Lock()
			dist["head-trunc"]++
			vmu.Unlock()
		default:
			from := cur.first + 1 + uint64(rng.Intn(int(cur.last-cur.first)))
			nx := *copySnap(cur)
			for i := from; i <= nx.last; i++ {
				delete(nx.content, i)
			}
			nx.last = from - 1
			announce(nx)
			if err := w.DeleteRange(from, cur.last); err != nil {
				addV(Violation{Property: "C06", What: "tail truncation failed during stress", Detail: err.Error()})
				break
			}
			cur = nx
			publish()
			vmu.Lock()
			dist["tail-trunc"]++
			vmu.Unlock()
			// re-append different content at the same indexes
			l := mk(from)
			nx2 := *copySnap(cur)
			nx2.content[from] = tokKey(logTok(l))
			nx2.last = from
			announce(nx2)
			if err := w.StoreLogs([]*raft.Log{l}); err == nil {
				cur = nx2
				publish()
				vmu.Lock()
				dist["reappend"]++
				vmu.Unlock()
			}
		}
		if rng.Chance(1, 4) {
			runtime.Gosched()
		}
	}
	close(stop)
	wg.Wait()
	return int(atomic.LoadInt64(&nreads)), viols, dist
}

// closeVsStableReal: StableStore and read calls hammering a WAL on the real filesystem + BoltDB while Close runs.
func closeVsStableReal(rounds int) (calls int, viols []Violation) {
	base := os.Getenv("VERIF_TMP")
	for k := 0; k < rounds; k++ {
		dir, err := os.MkdirTemp(base, "verif-conc-")
		if err != nil {
			return calls, viols
		}
		w, err := wal.Open(dir, wal.WithLogger(hclog.NewNullLogger()), wal.WithSegmentSize(4096))
		if err != nil {
			os.RemoveAll(dir)
			return calls, append(viols, Violation{Property: "C14", What: "setup: Open failed", Detail: err.Error()})
		}
		w.StoreLogs([]*raft.Log{{Index: 1, Term: 1, Data: []byte("one")}})
		w.Set([]byte("k"), []byte("v"))
		var wg sync.WaitGroup
		var n int64
		var vmu sync.Mutex
		stop := make(chan struct{})
		for g := 0; g < 6; g++ {
			wg.Add(1)
			go func(g int) {
				defer wg.Done()
				defer func() {
					if x := recover(); x != nil {
						vmu.Lock()
						viols = append(viols, Violation{Property: "C14", What: "a call racing with Close panicked", Detail: fmt.Sprint(x),
							Ops: []string{"real filesystem + BoltDB", "6 goroutines calling Get/Set/GetUint64/GetLog/LastIndex in a loop", "Close()"}})
						vmu.Unlock()
					}
				}()
				for {
					select {
					case <-stop:
						return
					default:
					}
					var err error
					switch g % 5 {
					case 0:
						_, err = w.Get([]byte("k"))
					case 1:
						err = w.Set([]byte("k2"), []byte("v2"))
					case 2:
						_, err = w.GetUint64([]byte("none"))
					case 3:
						var l raft.Log
						err = w.GetLog(1, &l)
					default:
						_, err = w.LastIndex()
					}
					atomic.AddInt64(&n, 1)
					if err != nil && walClass(err) != "err closed" {
						vmu.Lock()
						if len(viols) < 3 {
							viols = append(viols, Violation{Property: "C14", What: "a call racing with Close returned neither a correct result nor ErrClosed", Detail: err.Error(),
								Ops: []string{"real filesystem + BoltDB", "goroutines calling Get/Set/GetUint64/GetLog/LastIndex in a loop", "Close()"}})
						}
						vmu.Unlock()
						return
					}
				}
			}(g)
		}
		time.Sleep(time.Duration(2+k%5) * time.Millisecond)
		w.Close()
		time.Sleep(time.Millisecond)
		close(stop)
		wg.Wait()
		calls += int(atomic.LoadInt64(&n))
		os.RemoveAll(dir)
		if len(viols) > 0 {
			return calls, viols
		}
	}
	return calls, viols
}

// stableConcReal: StableStore isolation under concurrency on the real filesystem + BoltDB (C08): G goroutines, each
// owning its own keys, Set/SetUint64 then Get/GetUint64 — an acknowledged write must read back as written whatever
// the other goroutines write to other keys; after Close/Open every key holds its owner's last acknowledged value.
// Plus one forced interleaving: SetUint64(a) parked after its closed check while SetUint64(b) runs to completion.
func stableConcReal(rounds int) (calls int, viols []Violation) {
	base := os.Getenv("VERIF_TMP")
	add := func(what, detail string, ops ...string) {
		if len(viols) < 4 {
			viols = append(viols, Violation{Property: "C08", What: what, Detail: detail, Ops: append([]string{"real filesystem + BoltDB"}, ops...)})
		}
	}
	dir, err := os.MkdirTemp(base, "verif-stable-")
	if err != nil {
		return 0, nil
	}
	defer os.RemoveAll(dir)
	open := func() *wal.WAL {
		w, err := wal.Open(dir, wal.WithLogger(hclog.NewNullLogger()), wal.WithSegmentSize(4096))
		if err != nil {
			add("Open failed", err.Error())
			return nil
		}
		return w
	}
	w := open()
	if w == nil {
		return
	}
	// forced interleaving
	{
		p := newParker()
		wal.SetVerifYield(p.hit)
		p.arm("Set:after-closed-check")
		a := goCall(func() string { return walClass(w.SetUint64([]byte("forced-a"), 7)) })
		if p.waitParked("Set:after-closed-check", concTimeout) {
			rb := walClass(w.SetUint64([]byte("forced-b"), 9))
			p.release("Set:after-closed-check")
			ra := a.wait(concTimeout)
			va, ea := w.GetUint64([]byte("forced-a"))
			vb, eb := w.GetUint64([]byte("forced-b"))
			calls += 4
			if ra != "ok" || rb != "ok" || ea != nil || eb != nil || va != 7 || vb != 9 {
				add("two acknowledged SetUint64 calls on different keys interfered", fmt.Sprintf("SetUint64(forced-a,7)=%s SetUint64(forced-b,9)=%s; GetUint64(forced-a)=%d,%v GetUint64(forced-b)=%d,%v", ra, rb, va, ea, vb, eb),
					"SetUint64(forced-a, 7) parked at yield point Set:after-closed-check", "SetUint64(forced-b, 9) runs to completion", "resume", "GetUint64 of both keys")
			}
		} else {
			p.release("Set:after-closed-check")
			a.wait(concTimeout)
		}
		wal.SetVerifYield(nil)
	}
	// a value handed out by Get belongs to the caller: it must not change under later stable writes, appends,
	// rotations and truncations (BoltDB only guarantees its own slices until the end of the transaction)
	{
		bigVal := bytes.Repeat([]byte("server-a."), 150) // 1350 bytes: the stable bucket is no longer stored inline
		for k := 0; k < 6; k++ {
			w.Set([]byte(fmt.Sprintf("pad-%d", k)), bytes.Repeat([]byte{byte('a' + k)}, 300))
		}
		if err := w.Set([]byte("big"), bigVal); err != nil {
			add("Set failed", err.Error())
		}
		heldBig, err1 := w.Get([]byte("big"))
		heldPad, err2 := w.Get([]byte("pad-3"))
		wantPad := bytes.Repeat([]byte{byte('a' + 3)}, 300)
		if err1 != nil || err2 != nil || !bytes.Equal(heldBig, bigVal) || !bytes.Equal(heldPad, wantPad) {
			add("Get does not return the value of the latest Set", fmt.Sprintf("err=%v,%v len=%d,%d", err1, err2, len(heldBig), len(heldPad)))
		}
		next := uint64(1)
		for round := 0; round < 8; round++ {
			w.SetUint64([]byte("counter"), uint64(round))
			w.Set([]byte(fmt.Sprintf("pad-%d", round%6)), bytes.Repeat([]byte{byte('A' + round)}, 280+round))
			var logs []*raft.Log
			for j := 0; j < 6; j++ {
				logs = append(logs, &raft.Log{Index: next, Term: 1, Data: bytes.Repeat([]byte{byte(next)}, 900)})
				next++
			}
			if err := w.StoreLogs(logs); err != nil {
				add("StoreLogs failed", err.Error())
				break
			}
			w.DeleteRange(math.MaxUint64, math.MaxUint64)
			if round == 5 {
				w.DeleteRange(1, 10)
			}
			calls += 4
		}
		if !bytes.Equal(heldBig, bigVal) || !bytes.Equal(heldPad, wantPad) {
			add("a value returned by Get changed after later stable writes and log operations", fmt.Sprintf("held value of key big now starts %q (was %q); pad-3 now starts %q", clipS(string(heldBig)), clipS(string(bigVal)), clipS(string(heldPad))),
				"Set of 6 values of 300 bytes and one of 1350 bytes", "v := Get(big) — held by the caller", "8 rounds of SetUint64, Set(other key), StoreLogs of 6 x 900 bytes (rotations), one head truncation", "compare v with what was set")
		}
		if cur, err := w.Get([]byte("big")); err != nil || !bytes.Equal(cur, bigVal) {
			add("log operations or writes to other keys altered a stable key", fmt.Sprintf("Get(big): err=%v len=%d", err, len(cur)))
		}
	}
	// clearing a key: Set(k, nil) makes Get return nothing, now and after a restart
	{
		ck := []byte("cleared-key")
		w.Set(ck, []byte("old value"))
		w.SetUint64([]byte("cleared-u64"), 77)
		e1 := w.Set(ck, nil)
		e2 := w.Set([]byte("cleared-u64"), nil)
		got, err := w.Get(ck)
		gu, err2 := w.GetUint64([]byte("cleared-u64"))
		if e1 != nil || e2 != nil || err != nil || err2 != nil || len(got) != 0 || gu != 0 {
			add("a key set to nil still holds its old value", fmt.Sprintf("Set(k,nil)=%v,%v; Get=%q,%v GetUint64=%d,%v", e1, e2, got, err, gu, err2), "Set(k, v)", "Set(k, nil)", "Get(k)")
		}
		w.Close()
		if w = open(); w == nil {
			return
		}
		got, err = w.Get(ck)
		gu, err2 = w.GetUint64([]byte("cleared-u64"))
		if err != nil || err2 != nil || len(got) != 0 || gu != 0 {
			add("a key set to nil holds its old value again after Close/Open", fmt.Sprintf("Get=%q,%v GetUint64=%d,%v", got, err, gu, err2), "Set(k, v)", "Set(k, nil)", "Close, Open", "Get(k)")
		}
		calls += 8
	}
	// the key space: every one-byte key and keys that look like the meta store's own names must be ordinary stable keys —
	// log activity (rotations, truncations: meta commits) never alters them and they never alter the log
	{
		var keys [][]byte
		for b := 0; b < 256; b++ {
			keys = append(keys, []byte{byte(b)})
		}
		for _, k := range []string{"wal-meta", "stable", "meta", "m\x00", "CurrentTerm", "LastVoteTerm", "LastVoteCand"} {
			keys = append(keys, []byte(k))
		}
		val := func(k []byte, gen int) []byte { return []byte(fmt.Sprintf("value-%d-of-%x", gen, k)) }
		for _, k := range keys {
			if err := w.Set(k, val(k, 0)); err != nil {
				add("Set failed", fmt.Sprintf("key %x: %v", k, err))
			}
		}
		first, _ := w.FirstIndex()
		last, _ := w.LastIndex()
		next := last + 1
		for round := 0; round < 4; round++ {
			var logs []*raft.Log
			for j := 0; j < 6; j++ {
				logs = append(logs, &raft.Log{Index: next, Term: 2, Data: bytes.Repeat([]byte{byte(next)}, 900)})
				next++
			}
			w.StoreLogs(logs)
			w.DeleteRange(math.MaxUint64, math.MaxUint64)
		}
		if first > 0 {
			w.DeleteRange(first, first+2)
		}
		check := func(when string, gen int) {
			for _, k := range keys {
				got, err := w.Get(k)
				if err != nil || !bytes.Equal(got, val(k, gen)) {
					add("a stable key does not hold the value of its latest Set after log activity", fmt.Sprintf("%s: key %x (%q): want %q, got %q err=%v", when, k, k, val(k, gen), clipS(string(got)), err),
						"Set of every one-byte key and of keys named like the meta store's buckets", "appends with rotations, a head truncation", "Get of every key")
					return
				}
			}
		}
		check("after appends, rotations and a truncation", 0)
		for _, k := range keys {
			w.Set(k, val(k, 1))
		}
		l2, _ := w.LastIndex()
		w.Close()
		if w = open(); w == nil {
			return
		}
		check("after re-setting every key, Close and Open", 1)
		if l3, err := w.LastIndex(); err != nil || l3 != l2 {
			add("stable writes altered the log", fmt.Sprintf("LastIndex %d before, %d after Close/Open (err=%v)", l2, l3, err))
		}
		calls += 2 * len(keys)
	}
	const G = 6
	final := make([]uint64, G)
	finalB := make([]string, G)
	for k := 0; k < rounds && len(viols) == 0; k++ {
		var wg sync.WaitGroup
		var vmu sync.Mutex
		var n int64
		for g := 0; g < G; g++ {
			wg.Add(1)
			go func(g int) {
				defer wg.Done()
				ku := []byte(fmt.Sprintf("u64-key-%d", g))
				kb := []byte(fmt.Sprintf("bytes-key-%d", g))
				for i := 0; i < 12; i++ {
					v := uint64(g+1)<<32 | uint64(k)<<8 | uint64(i)
					if err := w.SetUint64(ku, v); err != nil {
						vmu.Lock()
						add("SetUint64 failed", err.Error())
						vmu.Unlock()
						return
					}
					got, err := w.GetUint64(ku)
					if err != nil || got != v {
						vmu.Lock()
						add("GetUint64 does not return the value of the last acknowledged SetUint64 of that key", fmt.Sprintf("key %s: set %#x, got %#x err=%v (other goroutines only write other keys)", ku, v, got, err),
							fmt.Sprintf("%d goroutines, each: SetUint64(own key, v); GetUint64(own key)", G))
						vmu.Unlock()
						return
					}
					final[g] = v
					bv := fmt.Sprintf("val-%d-%d-%d", g, k, i)
					if err := w.Set(kb, []byte(bv)); err != nil {
						vmu.Lock()
						add("Set failed", err.Error())
						vmu.Unlock()
						return
					}
					gb, err := w.Get(kb)
					if err != nil || string(gb) != bv {
						vmu.Lock()
						add("Get does not return the value of the last acknowledged Set of that key", fmt.Sprintf("key %s: set %q, got %q err=%v", kb, bv, gb, err))
						vmu.Unlock()
						return
					}
					finalB[g] = bv
					atomic.AddInt64(&n, 4)
				}
			}(g)
		}
		wg.Wait()
		calls += int(n)
		if len(viols) > 0 {
			break
		}
		// restart: the last acknowledged values survive
		w.Close()
		if w = open(); w == nil {
			return
		}
		for g := 0; g < G; g++ {
			got, err := w.GetUint64([]byte(fmt.Sprintf("u64-key-%d", g)))
			if err != nil || got != final[g] {
				add("after Close/Open GetUint64 does not return the last acknowledged value", fmt.Sprintf("key u64-key-%d: want %#x got %#x err=%v", g, final[g], got, err))
			}
			gb, err := w.Get([]byte(fmt.Sprintf("bytes-key-%d", g)))
			if err != nil || string(gb) != finalB[g] {
				add("after Close/Open Get does not return the last acknowledged value", fmt.Sprintf("key bytes-key-%d: want %q got %q err=%v", g, finalB[g], gb, err))
			}
		}
	}
	if w != nil {
		w.Close()
	}
	return calls, viols
}

func init() {
	extraCommands["concsched"] = func(args []string) int {
		seed := atoiU(args[0])
		idx := int(atoiU(args[1]))
		simfs.OpenWriterDirSyncs = probeOpenWriterDirSyncs()
		scheds := concSchedules(seed)
		if idx >= len(scheds) {
			return 2
		}
		outcome, viols := scheds[idx].run()
		b, _ := json.Marshal(map[string]any{"outcome": outcome, "viols": viols})
		fmt.Println("CONCSCHED " + string(b))
		return 0
	}
}

func runScheduleInChild(seed uint64, idx int, s schedule) (string, []Violation) {
	cmd := exec.Command(os.Args[0], "concsched", fmt.Sprint(seed), fmt.Sprint(idx))
	var out bytes.Buffer
	cmd.Stdout = &out
	cmd.Stderr = &out
	done := make(chan error, 1)
	if err := cmd.Start(); err != nil {
		return "setup-err " + err.Error(), nil
	}
	go func() { done <- cmd.Wait() }()
	var werr error
	select {
	case werr = <-done:
	case <-time.After(90 * time.Second):
		cmd.Process.Kill()
		<-done
		return "blocked", []Violation{{Property: s.props[0], What: "forced schedule did not finish (deadlock)", Detail: s.name, Ops: []string{"schedule " + s.name}}}
	}
	txt := out.String()
	if i := strings.Index(txt, "CONCSCHED "); i >= 0 && werr == nil {
		var r struct {
			Outcome string      `json:"outcome"`
			Viols   []Violation `json:"viols"`
		}
		line := txt[i+len("CONCSCHED "):]
		if j := strings.IndexByte(line, '\n'); j >= 0 {
			line = line[:j]
		}
		if json.Unmarshal([]byte(line), &r) == nil {
			return r.Outcome, r.Viols
		}
	}
	// the child died: a panic no caller can recover from
	detail := txt
	if i := strings.Index(detail, "panic:"); i >= 0 {
		detail = detail[i:]
	}
	if len(detail) > 1500 {
		detail = detail[:1500]
	}
	var vs []Violation
	for _, p := range s.props {
		if p == "C14" || p == "C06" {
			vs = append(vs, Violation{Property: p, What: "the process died (panic outside any caller's reach) during a forced schedule", Detail: detail,
				Ops: []string{"forced schedule " + s.name + " (harness concsched " + fmt.Sprint(seed, " ", idx) + ")"}})
		}
	}
	return "process-died", vs
}

// poolStress: entries on both sides of the 64 KiB pooled read buffer read sequentially (returned logs are held and must
// not change when later reads reuse buffers: C12) and by overlapping readers with no writer at all (every read must
// return exactly the stored entry: C06, C12).
func poolStress(seed uint64, iters int) (reads int, viols []Violation) {
	r := NewRng(seed ^ 0x9001)
	d := simfs.New()
	w, err := openWalOn(d, 1<<20, nil)
	if err != nil {
		return 0, []Violation{{Property: "C06", What: "setup failed", Detail: err.Error()}}
	}
	defer w.Close()
	sizes := []int{100, 65536 - 40, 7, 65536 - 8, 65536, 30, 70 << 10, 65536 + 9, 200 << 10, 1, 32 << 10, 100 << 10}
	var want []*raft.Log
	for i, sz := range sizes {
		l := &raft.Log{Index: uint64(i + 1), Term: uint64(100 + i), Type: raft.LogCommand, Data: r.Bytes(sz), Extensions: r.Bytes(i % 3)}
		if len(l.Extensions) == 0 {
			l.Extensions = nil
		}
		want = append(want, l)
		if err := w.StoreLogs([]*raft.Log{l}); err != nil {
			return 0, []Violation{{Property: "C15", What: "StoreLogs refused an entry far below the maximum size", Detail: fmt.Sprintf("size %d: %v", sz, err)}}
		}
	}
	w.DeleteRange(math.MaxUint64, math.MaxUint64)
	same := func(a, b *raft.Log) bool {
		return a.Index == b.Index && a.Term == b.Term && a.Type == b.Type && bytes.Equal(a.Data, b.Data) && bytes.Equal(a.Extensions, b.Extensions)
	}
	desc := []string{fmt.Sprintf("12 entries of sizes %v stored one per call, segment size 1 MiB", sizes)}
	// sequential: hold what GetLog returned, keep reading, compare
	held := make([]*raft.Log, len(want))
	for round := 0; round < 3; round++ {
		for _, k := range r.perm(len(want)) {
			var l raft.Log
			if err := w.GetLog(uint64(k+1), &l); err != nil {
				return reads, append(viols, Violation{Property: "C15", What: "a stored entry cannot be read back", Detail: fmt.Sprintf("GetLog(%d) size %d: %v", k+1, sizes[k], err), Ops: desc})
			}
			reads++
			if !same(&l, want[k]) {
				viols = append(viols, Violation{Property: "C12", What: "GetLog does not return the stored entry", Detail: fmt.Sprintf("GetLog(%d) (size %d) returned index %d term %d len %d", k+1, sizes[k], l.Index, l.Term, len(l.Data)), Ops: append(desc, "sequential reads")})
				return reads, viols
			}
			if held[k] == nil {
				held[k] = &l
			}
		}
		for k, h := range held {
			if h != nil && !same(h, want[k]) {
				viols = append(viols, Violation{Property: "C12", What: "a log returned by GetLog changed when later reads reused internal buffers", Detail: fmt.Sprintf("entry %d (size %d)", k+1, sizes[k]), Ops: append(desc, "sequential reads, results held")})
				return reads, viols
			}
		}
	}
	// overlapping readers, no writer
	var wg sync.WaitGroup
	var vmu sync.Mutex
	var n int64
	G := 2 * runtime.GOMAXPROCS(0)
	if G < 8 {
		G = 8
	}
	for g := 0; g < G; g++ {
		wg.Add(1)
		gr := r.Fork()
		go func(g int) {
			defer wg.Done()
			defer func() {
				if x := recover(); x != nil {
					vmu.Lock()
					viols = append(viols, Violation{Property: "C06", What: "a concurrent read panicked", Detail: fmt.Sprint(x), Ops: desc})
					vmu.Unlock()
				}
			}()
			for i := 0; i < iters; i++ {
				k := gr.Intn(len(want))
				var l raft.Log
				err := w.GetLog(uint64(k+1), &l)
				atomic.AddInt64(&n, 1)
				if err != nil || !same(&l, want[k]) {
					vmu.Lock()
					if len(viols) < 4 {
						det := fmt.Sprintf("GetLog(%d) (size %d): err=%v, returned index %d term %d len %d", k+1, sizes[k], err, l.Index, l.Term, len(l.Data))
						ops := append(desc, fmt.Sprintf("%d goroutines reading random indexes concurrently, no writer, no truncation", G))
						viols = append(viols, Violation{Property: "C06", What: "an entry that stays in the log was not returned intact to a concurrent reader", Detail: det, Ops: ops})
						viols = append(viols, Violation{Property: "C12", What: "GetLog returned something other than the stored entry while other reads reused pooled buffers", Detail: det, Ops: ops})
						viols = append(viols, Violation{Property: "C15", What: "entries around the 64 KiB read buffer are not read back identically", Detail: det, Ops: ops})
					}
					vmu.Unlock()
					return
				}
			}
		}(g)
	}
	wg.Wait()
	return reads + int(n), viols
}

// flakyCodec: the built-in codec under an external ID; every `every`-th Decode fails with errFlakyDecode (a transient
// failure of a custom codec) before looking at the bytes.
type flakyCodec struct {
	wal.BinaryCodec
	n     int64
	every int64
}

var errFlakyDecode = errors.New("flaky codec: transient decode failure")

func (c *flakyCodec) ID() uint64 { return wal.FirstExternalCodecID + 77 }
func (c *flakyCodec) Decode(bs []byte, l *raft.Log) error {
	if atomic.AddInt64(&c.n, 1)%c.every == 0 {
		return errFlakyDecode
	}
	return c.BinaryCodec.Decode(bs, l)
}

// poolStressFlakyDecode: the error path of GetLog. With a codec whose Decode fails now and then, overlapping readers of
// small (pooled-buffer) entries must each get the codec's error or exactly the stored entry — a read buffer handed
// back twice on the error path would be given to two later readers at once (C12, C06).
func poolStressFlakyDecode(seed uint64, iters int) (reads int, viols []Violation) {
	r := NewRng(seed ^ 0x9f1a)
	d := simfs.New()
	d.Record = false
	codec := &flakyCodec{every: 5}
	w, err := wal.Open("d", wal.WithCodec(codec), wal.WithLogger(hclog.NewNullLogger()), wal.WithSegmentSize(1<<20),
		wal.WithSegmentFiler(segment.NewFiler("d", d)), wal.WithMetaStore(&simfs.Meta{D: d}))
	if err != nil {
		return 0, []Violation{{Property: "C12", What: "a WAL with an external codec ID does not open", Detail: err.Error()}}
	}
	defer w.Close()
	var want []*raft.Log
	for i := 0; i < 24; i++ {
		l := &raft.Log{Index: uint64(i + 1), Term: uint64(7 + i), Type: raft.LogCommand, Data: r.Bytes(40 + 97*i)}
		want = append(want, l)
		if err := w.StoreLogs([]*raft.Log{l}); err != nil {
			return 0, []Violation{{Property: "C12", What: "StoreLogs failed", Detail: err.Error()}}
		}
	}
	desc := []string{"24 entries below 64 KiB; codec = BinaryCodec under an external ID whose Decode fails every 5th call"}
	// a run of failing reads first (sequential), then overlapping readers
	for i := 0; i < 40; i++ {
		var l raft.Log
		w.GetLog(uint64(1+i%len(want)), &l)
		reads++
	}
	var wg sync.WaitGroup
	var vmu sync.Mutex
	var n int64
	G := 2 * runtime.GOMAXPROCS(0)
	if G < 8 {
		G = 8
	}
	for g := 0; g < G; g++ {
		wg.Add(1)
		gr := r.Fork()
		go func() {
			defer wg.Done()
			defer func() {
				if x := recover(); x != nil {
					vmu.Lock()
					viols = append(viols, Violation{Property: "C06", What: "a concurrent read panicked", Detail: fmt.Sprint(x), Ops: desc})
					vmu.Unlock()
				}
			}()
			for i := 0; i < iters; i++ {
				k := gr.Intn(len(want))
				var l raft.Log
				err := w.GetLog(uint64(k+1), &l)
				atomic.AddInt64(&n, 1)
				if errors.Is(err, errFlakyDecode) {
					continue
				}
				if err != nil || l.Index != want[k].Index || l.Term != want[k].Term || !bytes.Equal(l.Data, want[k].Data) {
					vmu.Lock()
					if len(viols) < 2 {
						det := fmt.Sprintf("GetLog(%d): err=%v, returned index %d term %d len %d (stored: term %d len %d)", k+1, err, l.Index, l.Term, len(l.Data), want[k].Term, len(want[k].Data))
						ops := append(desc, fmt.Sprintf("%d goroutines reading random indexes concurrently, no writer", G))
						viols = append(viols, Violation{Property: "C12", What: "after reads whose Decode failed, GetLog returns something other than the stored entry while other reads reuse pooled buffers", Detail: det, Ops: ops})
						viols = append(viols, Violation{Property: "C06", What: "an entry that stays in the log was not returned intact to a concurrent reader (after reads whose Decode failed)", Detail: det, Ops: ops})
					}
					vmu.Unlock()
					return
				}
			}
		}()
	}
	wg.Wait()
	return reads + int(n), viols
}

func init() {
	extraCommands["stablesub"] = func(args []string) int {
		n, viols := stableConcReal(int(atoiU(args[0])))
		b, _ := json.Marshal(map[string]any{"n": n, "viols": viols})
		fmt.Println("STABLESUB " + string(b))
		return 0
	}
}

// stableInChild: a stale pointer into BoltDB's memory map can fault instead of reading wrong bytes; the check runs in a
// child process so that this, too, is a finding
func stableInChild(rounds int) (int, []Violation) {
	cmd := exec.Command(os.Args[0], "stablesub", fmt.Sprint(rounds))
	var out bytes.Buffer
	cmd.Stdout = &out
	cmd.Stderr = &out
	err := cmd.Run()
	txt := out.String()
	if i := strings.Index(txt, "STABLESUB "); i >= 0 && err == nil {
		var r struct {
			N     int         `json:"n"`
			Viols []Violation `json:"viols"`
		}
		line := txt[i+len("STABLESUB "):]
		if j := strings.IndexByte(line, '\n'); j >= 0 {
			line = line[:j]
		}
		if json.Unmarshal([]byte(line), &r) == nil {
			return r.N, r.Viols
		}
	}
	if len(txt) > 1500 {
		txt = txt[:1500]
	}
	return 0, []Violation{{Property: "C08", What: "the process died while using values returned by the stable store", Detail: txt, Ops: []string{"harness stablesub " + fmt.Sprint(rounds)}}}
}

func suiteConc(seed uint64, tier string) *Report {
	rep := newReport("conc", seed, tier)
	rep.Rule = "forced schedules: each LogStore/StableStore call parked at its post-closed-check yield point (and between loading the state pointer and taking the reference) while Close runs to completion; a writer parked waiting for a rotation while Close runs; readers pinned inside a file read across head and tail truncations; a reader parked before taking its reference across a head truncation; readers probing from inside the VFS write/fsync of an append — outcome classified (value / ErrClosed / other error / panic / blocked). Free-running stress: N readers (FirstIndex, LastIndex, GetLog around the live range) against a writer appending with rotation, truncating head and tail and re-appending different content; every read must match one of the log versions current between its start and its end (+1 for the operation in flight). Non-trivial = schedules that reached their park point; distinct by schedule name."
	simfs.OpenWriterDirSyncs = probeOpenWriterDirSyncs()
	scheds := concSchedules(seed)
	shapes := map[string]bool{}
	mc := &Case{ID: fmt.Sprintf("conc-model-%d", seed), Props: []string{"C06", "C14"}, NonTrivial: true, Shape: "conc-model"}
	for si, s := range scheds {
		// each forced schedule runs in a child process: a panic in a background goroutine of the WAL (which nothing
		// can recover) must not take the suite down, it is a finding
		outcome, viols := runScheduleInChild(seed, si, s)
		if s.model != "" && s.implCanon != nil && !strings.Contains(outcome, "not-parked") && !strings.HasPrefix(outcome, "setup-err") {
			mc.Ops = append(mc.Ops, s.model)
			mc.Impl = append(mc.Impl, s.implCanon(outcome))
		}
		if s.modelW != "" && s.implCanonW != nil && !strings.Contains(outcome, "not-parked") && !strings.HasPrefix(outcome, "setup-err") && outcome != "process-died" {
			mc.Ops = append(mc.Ops, s.modelW)
			mc.Impl = append(mc.Impl, s.implCanonW(outcome))
			rep.Dist["model_w_schedules_compared"]++
		}
		rep.Cases++
		rep.Ops++
		rep.Dist["schedule:"+strings.SplitN(s.name, "/", 2)[0]]++
		if !strings.Contains(outcome, "not-parked") && !strings.HasPrefix(outcome, "setup-err") {
			shapes[s.name] = true
		} else {
			rep.Notes = append(rep.Notes, s.name+": "+outcome)
			rep.Divergences = append(rep.Divergences, Divergence{Props: s.props, Case: s.name, Op: "reach park point", Impl: outcome, Model: "parked"})
		}
		if len(rep.Samples) < 6 {
			rep.Samples = append(rep.Samples, map[string]any{"schedule": s.name, "outcome": outcome})
		}
		for _, v := range viols {
			v.Case = s.name
			rep.Violations = append(rep.Violations, v)
		}
	}
	if len(mc.Ops) > 0 {
		sub := newReport("conc", seed, tier)
		RunCases("conc", []*Case{mc}, sub)
		rep.Divergences = append(rep.Divergences, sub.Divergences...)
		rep.Dist["model_schedules_compared"] = len(mc.Ops)
		rep.Samples = append(rep.Samples, map[string]any{"model-op": mc.Ops[0], "impl": mc.Impl[0]})
	}
	dur, readers, rounds := 700*time.Millisecond, 6, 3
	if tier == "thorough" {
		dur, readers, rounds = 4*time.Second, 12, 12
	}
	for k := 0; k < rounds; k++ {
		n, viols, dist := stressRun(seed*977+uint64(k), dur, readers)
		rep.Ops += n
		rep.Dist["stress_reads"] += n
		for kk, vv := range dist {
			rep.Dist["stress:"+kk] += vv
		}
		rep.Violations = append(rep.Violations, viols...)
		rep.Cases++
	}
	{
		rounds := 15
		if tier == "thorough" {
			rounds = 150
		}
		n, viols := closeVsStableReal(rounds)
		rep.Ops += n
		rep.Dist["close-vs-calls-realfs"] = n
		rep.Cases += rounds
		rep.Violations = append(rep.Violations, viols...)
	}
	{
		iters := 20000
		if tier == "thorough" {
			iters = 400000
		}
		n, viols := sealedReadStress(seed, iters)
		rep.Ops += n
		rep.Dist["sealed-read-stress"] = n
		rep.Cases++
		rep.Violations = append(rep.Violations, viols...)
	}
	{
		n, viols := stableGetVsSet()
		rep.Ops += n
		rep.Dist["stable-get-vs-set"] = n
		rep.Cases += 10
		rep.Violations = append(rep.Violations, viols...)
	}
	{
		truncs := 600
		if tier == "thorough" {
			truncs = 20000
		}
		n, viols := refHammer(seed, truncs)
		rep.Ops += n
		rep.Dist["refhammer-ops"] = n
		rep.Cases++
		rep.Violations = append(rep.Violations, viols...)
	}
	{
		iters := 400
		if tier == "thorough" {
			iters = 6000
		}
		n, viols := poolStress(seed, iters)
		rep.Ops += n
		rep.Dist["pool-boundary-reads"] = n
		rep.Cases++
		rep.Violations = append(rep.Violations, viols...)
		n2, viols2 := poolStressFlakyDecode(seed, iters*4)
		rep.Ops += n2
		rep.Dist["pool-reads-flaky-decode"] = n2
		rep.Cases++
		rep.Violations = append(rep.Violations, viols2...)
	}
	{
		rounds := 6
		if tier == "thorough" {
			rounds = 60
		}
		n, viols := stableInChild(rounds)
		rep.Ops += n
		rep.Dist["stable-concurrent-realfs"] = n
		rep.Cases += rounds + 1
		rep.Violations = append(rep.Violations, viols...)
	}
	rep.NonTrivial = len(shapes)
	keys := make([]string, 0, len(shapes))
	for k := range shapes {
		keys = append(keys, k)
	}
	sort.Strings(keys)
	return rep
}

// stableGetVsSet: forced interleaving on one key (C08): a Get is held after the meta store has produced the value and
// before Get returns; a Set of the same key (to a new value, to nil, a SetUint64) then runs to completion; the held
// Get returns the old or the new value, and every Get that STARTS after the Set returned sees the new one — now, after
// log activity, and after Close/Open.
func stableGetVsSet() (calls int, viols []Violation) {
	add := func(what, detail string, ops ...string) {
		viols = append(viols, Violation{Property: "C08", What: what, Case: "stable-get-vs-set", Detail: detail, Ops: ops})
	}
	type step struct {
		name     string
		old, new []byte // nil = absent
		u64      bool
	}
	u := func(v uint64) []byte { b := make([]byte, 8); binary.LittleEndian.PutUint64(b, v); return b }
	steps := []step{
		{"bytes: value replaced", []byte("node-a"), []byte("node-b"), false},
		{"bytes: value cleared with Set(key, nil)", []byte("node-a"), nil, false},
		{"bytes: first value of an absent key", nil, []byte("node-c"), false},
		{"uint64: value replaced", u(1), u(2), true},
		{"uint64: first value of an absent key", nil, u(7), true},
	}
	for si, st := range steps {
		for _, warm := range []bool{false, true} {
			d := simfs.New()
			d.Record = false
			w, err := openWalOn(d, 4096, nil)
			if err != nil {
				return calls, viols
			}
			key := []byte(fmt.Sprintf("k-%d", si))
			ops := []string{fmt.Sprintf("%s (key read before in this process: %v)", st.name, warm)}
			if st.old != nil {
				if err := w.Set(key, st.old); err != nil {
					add("Set failed", err.Error(), ops...)
				}
			}
			get := func() (string, error) {
				if st.u64 {
					v, err := w.GetUint64(key)
					return fmt.Sprint(v), err
				}
				v, err := w.Get(key)
				return string(v), err
			}
			want := func(b []byte) string {
				if st.u64 {
					if b == nil {
						return "0"
					}
					return fmt.Sprint(binary.LittleEndian.Uint64(b))
				}
				return string(b)
			}
			if warm {
				get()
			}
			parked, resume := make(chan struct{}), make(chan struct{})
			var once sync.Once
			d.SetAfterGetStable(func(k []byte) {
				if string(k) == string(key) {
					once.Do(func() { close(parked); <-resume })
				}
			})
			held := goCall(func() string { v, err := get(); return fmt.Sprintf("%s err=%v", v, err) })
			select {
			case <-parked:
			case <-time.After(concTimeout):
				// nothing reached the meta store (a cache answered): not held, nothing to interleave
			}
			d.SetAfterGetStable(nil)
			var serr error
			if st.u64 {
				serr = w.SetUint64(key, binary.LittleEndian.Uint64(st.new))
			} else {
				serr = w.Set(key, st.new)
			}
			select {
			case <-resume:
			default:
				close(resume)
			}
			hres := held.wait(concTimeout)
			calls += 3
			if serr != nil {
				add("Set failed while a Get of the same key was in progress", serr.Error(), ops...)
			}
			if hres != want(st.old)+" err=<nil>" && hres != want(st.new)+" err=<nil>" {
				add("a Get racing with a Set of its key returned neither the old nor the new value", fmt.Sprintf("got %q, old %q, new %q", hres, want(st.old), want(st.new)), ops...)
			}
			check := func(when string) {
				got, err := get()
				calls++
				if err != nil || got != want(st.new) {
					add("Get does not return the value of the latest Set that returned nil", fmt.Sprintf("%s: want %q, got %q err=%v (the Set ran while an earlier Get of the key was between reading the meta store and returning)", when, want(st.new), got, err), ops...)
				}
			}
			check("right after the Set returned")
			w.StoreLogs([]*raft.Log{{Index: 1, Term: 1, Data: []byte("x")}})
			check("after an append")
			w.Close()
			if w, err = openWalOn(d, 4096, nil); err != nil {
				add("reopen failed", err.Error(), ops...)
				break
			}
			check("after Close/Open")
			w.Close()
			if len(viols) > 0 {
				return calls, viols
			}
		}
	}
	return calls, viols
}

// sealedReadStress: after a reopen, sealed segments are served through their on-disk index block (before it, the former
// tail's in-memory offsets serve them). Readers on every core read random indexes of the same few sealed segments at the
// same time; nothing is being written: every read must return exactly the entry stored at that index (C06, C12).
func sealedReadStress(seed uint64, iters int) (reads int, viols []Violation) {
	d := simfs.New()
	d.Record = false
	w, err := openWalOn(d, 512, nil)
	if err != nil {
		return 0, nil
	}
	const n = 48
	want := map[uint64]string{}
	for i := uint64(1); i <= n; i++ {
		data := fmt.Sprintf("sealed-entry-%04d-%s", i, strings.Repeat(string(rune('a'+i%26)), int(10+i%23)))
		if err := w.StoreLogs([]*raft.Log{{Index: i, Term: 1 + i%3, Data: []byte(data)}}); err != nil {
			return 0, nil
		}
		want[i] = data
		w.DeleteRange(math.MaxUint64, math.MaxUint64)
	}
	w.Close()
	if w, err = openWalOn(d, 512, nil); err != nil {
		return 0, []Violation{{Property: "C06", What: "reopen failed", Case: "sealed-read-stress", Detail: err.Error()}}
	}
	defer w.Close()
	readers := runtime.GOMAXPROCS(0) - 1
	if readers < 2 {
		readers = 2
	}
	if readers > 12 {
		readers = 12
	}
	var vmu sync.Mutex
	var wg sync.WaitGroup
	var total int64
	for r := 0; r < readers; r++ {
		wg.Add(1)
		go func(r int) {
			defer wg.Done()
			rng := NewRng(seed*131 + uint64(r))
			defer func() {
				if x := recover(); x != nil {
					vmu.Lock()
					viols = append(viols, Violation{Property: "C06", What: "a read of a sealed segment panicked under concurrent reads", Case: "sealed-read-stress", Detail: fmt.Sprint(x)})
					vmu.Unlock()
				}
			}()
			for k := 0; k < iters; k++ {
				// a narrow window of indexes: the readers collide on the same segments
				idx := uint64(1 + rng.Intn(16))
				var l raft.Log
				err := w.GetLog(idx, &l)
				atomic.AddInt64(&total, 1)
				if err != nil || l.Index != idx || string(l.Data) != want[idx] {
					vmu.Lock()
					if len(viols) < 3 {
						for _, p := range []string{"C06", "C12"} {
							viols = append(viols, Violation{Property: p, What: "concurrent reads of a sealed segment (after a reopen, nothing being written): a read did not return the entry stored at its index",
								Case: "sealed-read-stress", Ops: []string{fmt.Sprintf("48 entries in 512-byte segments, Close, Open, %d readers x %d GetLog of indexes 1..16", readers, iters)},
								Detail: fmt.Sprintf("GetLog(%d): err=%v, returned index %d data %q", idx, err, l.Index, clipS(string(l.Data)))})
						}
					}
					vmu.Unlock()
					return
				}
			}
		}(r)
	}
	wg.Wait()
	return int(total), viols
}

// refHammer: index-only readers (FirstIndex / LastIndex: nothing but the closed check, the state reference and two
// loads — the shortest window there is around taking and dropping a reference) spin on every core while one writer
// rotates a one-entry-per-segment log and truncates its head segment by segment. Every reference taken on a state must
// be dropped through release(): when readers and writer are done, the files of all deleted segments are gone (C13),
// and no read may have failed or gone backwards (C06).
func refHammer(seed uint64, truncs int) (ops int, viols []Violation) {
	d := simfs.New()
	d.Record = false
	w, err := openWalOn(d, 1, nil) // every append fills its segment
	if err != nil {
		return 0, nil
	}
	readers := runtime.GOMAXPROCS(0) - 2
	if readers < 2 {
		readers = 2
	}
	if readers > 14 {
		readers = 14
	}
	var stop int32
	var nreads int64
	var vmu sync.Mutex
	addV := func(v Violation) {
		vmu.Lock()
		if len(viols) < 3 {
			viols = append(viols, v)
		}
		vmu.Unlock()
	}
	var wg sync.WaitGroup
	for r := 0; r < readers; r++ {
		wg.Add(1)
		go func(r int) {
			defer wg.Done()
			defer func() {
				if x := recover(); x != nil {
					addV(Violation{Property: "C06", What: "index read panicked under truncations", Case: "refhammer", Detail: fmt.Sprint(x)})
				}
			}()
			var lastFirst uint64
			for atomic.LoadInt32(&stop) == 0 {
				var f uint64
				var err error
				if r%2 == 0 {
					f, err = w.FirstIndex()
					if err == nil && f != 0 {
						if f < lastFirst {
							addV(Violation{Property: "C06", What: "FirstIndex went backwards while the head was being truncated", Case: "refhammer", Detail: fmt.Sprintf("%d after %d", f, lastFirst)})
						}
						lastFirst = f
					}
				} else {
					_, err = w.LastIndex()
				}
				if err != nil {
					addV(Violation{Property: "C06", What: "index read failed under truncations", Case: "refhammer", Detail: err.Error()})
					return
				}
				atomic.AddInt64(&nreads, 1)
			}
		}(r)
	}
	idx := uint64(1)
	done := 0
	for done < truncs {
		for k := 0; k < 3; k++ {
			if err := w.StoreLogs([]*raft.Log{{Index: idx, Term: 1, Data: []byte("h")}}); err != nil {
				addV(Violation{Property: "C06", What: "append failed during the reference stress", Case: "refhammer", Detail: err.Error()})
				done = truncs
				break
			}
			idx++
		}
		first, _ := w.FirstIndex()
		for k := 0; k < 2 && done < truncs; k++ {
			if err := w.DeleteRange(0, first); err != nil {
				addV(Violation{Property: "C06", What: "head truncation failed during the reference stress", Case: "refhammer", Detail: err.Error()})
				done = truncs
				break
			}
			first++
			done++
		}
	}
	atomic.StoreInt32(&stop, 1)
	wg.Wait()
	// readers are gone and the writer is idle: nothing references a replaced state any more
	deadline := time.Now().Add(concTimeout)
	for {
		ps := d.MetaState()
		live := map[string]bool{}
		for _, si := range ps.Segments {
			live[segmentName(si.BaseIndex, si.ID)] = true
		}
		var extra []string
		for _, n := range d.FileNames() {
			if !live[n] {
				extra = append(extra, n)
			}
		}
		if len(extra) == 0 {
			break
		}
		if time.Now().After(deadline) {
			sort.Strings(extra)
			if len(extra) > 6 {
				extra = append(extra[:6], fmt.Sprintf("… %d more", len(extra)-6))
			}
			addV(Violation{Property: "C13", What: "files of deleted segments are still in the directory after every reader and the writer finished (a reference on a replaced state was dropped without running its finalizer)",
				Case: "refhammer", Ops: []string{fmt.Sprintf("refhammer seed=%d truncs=%d readers=%d", seed, truncs, readers)}, Detail: strings.Join(extra, " ")})
			break
		}
		time.Sleep(time.Millisecond)
	}
	w.Close()
	return int(atomic.LoadInt64(&nreads)) + done, viols
}

func init() { suites["conc"] = suiteConc }
