package main

import (
	"fmt"
	"math"
	"strings"

	"github.com/hashicorp/raft"
	wal "github.com/hashicorp/raft-wal"

	"verifharness/simfs"
)

// Correspondence of Model/Fault.lean (I/O errors at the level of the durability protocol; the C10 theorems at the WAL
// level are about it) with the real WAL on simfs. A workload is recorded once without faults; then, for every API call
// of it and every I/O action of that call (file write — with nothing, part, or all of the batch reaching the file —, fsync,
// create, meta commit, stable set, delete; the background rotation's actions included) the workload is run again with
// exactly that action failing. Compared per call: whether it returned nil and the log readers of the running process see
// afterwards (first, last, length, content hash); and after a clean restart at the end (and wherever the workload
// restarts) the recovered log. The model computes all of it from the op lines and the index of the failing action.

type fmOpResult struct {
	line string // model line (without the fault prefix)
	impl string
	plan string // the fault plan of the call as it happened: one letter per I/O action the call got to
}

// planOfEvents: one letter per model-visible I/O action among the events of one call, in order: '.' it succeeded,
// 'x' it failed, for a pwrite 'n' / 'g' / 'w' = it failed with nothing / part / all of its bytes in the file
func planOfEvents(evs []simfs.Event) string {
	var sb strings.Builder
	for _, e := range evs {
		_, _, seg := segIDOf(e.Name)
		vis := false
		switch e.Kind {
		case "write", "sync", "create", "delete":
			vis = seg
		case "commit", "setstable":
			vis = true
		}
		if !vis {
			continue
		}
		switch {
		case !e.Failed:
			sb.WriteByte('.')
		case e.Kind == "write" && e.Landed == 0:
			sb.WriteByte('n')
		case e.Kind == "write" && e.Landed >= len(e.Data):
			sb.WriteByte('w')
		case e.Kind == "write":
			sb.WriteByte('g')
		default:
			sb.WriteByte('x')
		}
	}
	if !strings.ContainsAny(sb.String(), "xngw") {
		return "-"
	}
	return sb.String()
}

// fmRun executes ops on a fresh disk. faultOp/faultKind/faultName/faultNth/landed: during op faultOp the nth
// fault-eligible call of that kind on that file fails (faultOp < 0: no fault).
func fmRun(segSize int, ops []string, faultOp int, faultKind, faultName string, faultNth, landed int, persistent bool) (res []fmOpResult, fired bool, viols []Violation) {
	// direct monitors on the real run (independent of the model): entries whose StoreLogs returned nil and that no
	// DeleteRange (successful, or failed — a failed one may or may not take effect) has touched are readable and
	// unaltered after every call and after every restart (C10, C01); a stable value whose Set returned nil reads back,
	// one whose Set failed reads back as the old or the new value (C08)
	acked := map[uint64]string{}
	stableOK := map[uint64]bool{0: true} // admissible values of the stable key
	var done []string
	report := func(prop, what, detail string) {
		for _, pr := range []string{"C10", prop} {
			viols = append(viols, Violation{Property: pr, What: what, Detail: detail, Ops: append([]string{fmt.Sprintf("segment size %d", segSize), fmt.Sprintf("fault: %s of %s, occurrence %d of call %d, persistent=%v, landed=%d", faultKind, faultName, faultNth, faultOp, persistent, landed)}, done...)})
		}
	}
	verify := func(w *wal.WAL, when string) {
		for idx, want := range acked {
			var l raft.Log
			if err := w.GetLog(idx, &l); err != nil {
				report("C01", "an acknowledged entry no DeleteRange covered cannot be read "+when, fmt.Sprintf("GetLog(%d): %v", idx, err))
				return
			} else if tokKey(logTok(&l)) != want {
				report("C01", "an acknowledged entry reads back altered "+when, fmt.Sprintf("GetLog(%d)", idx))
				return
			}
		}
		if v, err := w.GetUint64(unhx(hx([]byte("CurrentTerm")))); err == nil && !stableOK[v] {
			report("C08", "the stable store returns a value that is neither the last acknowledged one nor one a failed Set may have written "+when, fmt.Sprintf("GetUint64 = %d, admissible %v", v, stableOK))
		}
	}
	d := simfs.New()
	d.Record = true
	w, err := openWalOn(d, segSize, nil)
	if err != nil {
		return nil, false, nil
	}
	defer func() {
		if w != nil {
			w.Close()
		}
	}()
	for j, op := range ops {
		ws := strings.Fields(op)
		if ws[0] == "restart" {
			if w != nil {
				w.Close()
			}
			w, err = openWalOn(d, segSize, nil)
			if err != nil {
				w = nil
				res = append(res, fmOpResult{line: "frestart", impl: "err"})
				done = append(done, "restart")
				if len(acked) > 0 {
					report("C01", "Open fails on a clean restart: acknowledged entries are unreachable", err.Error())
				}
				return res, fired, viols
			}
			res = append(res, fmOpResult{line: "frestart", impl: logSummary(w)})
			done = append(done, "restart")
			verify(w, "after a clean restart")
			continue
		}
		if j == faultOp {
			seen := 0
			d.Fault = func(kind string, call int, name string) *simfs.FaultAction {
				if fired && persistent && kind == faultKind {
					return &simfs.FaultAction{Landed: landed} // every later call of that kind fails too, until the API call returns
				}
				if kind != faultKind || name != faultName || fired {
					return nil
				}
				seen++
				if seen == faultNth {
					fired = true
					return &simfs.FaultAction{Landed: landed}
				}
				return nil
			}
		}
		start := d.NumEvents()
		var e error
		line := ""
		switch ws[0] {
		case "store":
			var logs []*raft.Log
			var hs []string
			for _, t := range ws[1:] {
				logs = append(logs, parseLogTok(t))
				hs = append(hs, fmt.Sprint(entryHash(t)))
			}
			e = w.StoreLogs(logs)
			ack := d.NumEvents()
			w.DeleteRange(math.MaxUint64, math.MaxUint64) // the background rotation runs inside the fault window
			seals := 0
			for _, ev := range d.Events[ack:] {
				if ev.Kind == "commit" {
					seals = 1 // the append filled the tail: a rotation was attempted
				}
			}
			line = fmt.Sprintf("store %d %d %s", logs[0].Index, seals, strings.Join(hs, " "))
		case "del":
			e = w.DeleteRange(atoiU(ws[1]), atoiU(ws[2]))
			line = op
		case "setu":
			e = w.SetUint64(unhx(ws[1]), atoiU(ws[2]))
			line = "setu 1 " + ws[2]
		}
		d.Fault = nil
		r := "ok"
		if e != nil {
			r = "err"
		}
		res = append(res, fmOpResult{line, r + " " + logSummary(w), planOfEvents(d.Events[start:])})
		done = append(done, clipS(op)+" -> "+r)
		switch ws[0] {
		case "store":
			if e == nil {
				for _, t := range ws[1:] {
					acked[atoiU(strings.SplitN(t, ":", 2)[0])] = tokKey(t)
				}
			}
		case "del":
			// whether it returned nil or not, the entries of the range are no longer guaranteed (a failed call may take effect)
			mn, mx := atoiU(ws[1]), atoiU(ws[2])
			for idx := range acked {
				if idx >= mn && idx <= mx {
					delete(acked, idx)
				}
			}
		case "setu":
			if e == nil {
				stableOK = map[uint64]bool{atoiU(ws[2]): true}
			} else {
				stableOK[atoiU(ws[2])] = true
			}
		}
		verify(w, "in the running process after `"+clipS(op)+"`")
	}
	return res, fired, viols
}

func faultKindOf(evKind string) string { return evKind } // simfs uses the same names for events and fault-eligible calls

// faultModelTie builds the driver cases for one workload.
func faultModelTie(segSize int, ops []string, r *Rng, out *[]*cmCase, stats map[string]int, viols *[]Violation) {
	// recorded run without faults: the events of every call
	d := simfs.New()
	d.Record = true
	var plain []string
	for _, o := range ops {
		if o != "restart" {
			plain = append(plain, o)
		}
	}
	spans, w := runRecorded(d, segSize, append([]string{"open"}, plain...))
	if w != nil {
		w.Close()
	}
	events := append([]simfs.Event(nil), d.Events...)
	// index of each plain op in ops
	var opIdx []int
	for j, o := range ops {
		if o != "restart" {
			opIdx = append(opIdx, j)
		}
	}
	emit := func(res []fmOpResult, replay []string) {
		cc := &cmCase{}
		cc.add("case x", "", nil)
		for j, rr := range res {
			if rr.line == "frestart" {
				cc.add("frestart", rr.impl, replay)
				if rr.impl != "err" {
					cc.add("finv", "true", append(append([]string(nil), replay...), "model invariant FInvS after the restart"))
				}
				continue
			}
			cc.add(fmt.Sprintf("f %s %s", rr.plan, rr.line), rr.impl, replay)
			// the model's invariant of a (possibly faulted) process between calls, the hypothesis the fault theorems carry
			cc.add("finv", "true", append(append([]string(nil), replay...), "model invariant FInvS after call "+fmt.Sprint(j)))
		}
		*out = append(*out, cc)
	}
	// no fault at all
	if res, _, vs := fmRun(segSize, append(append([]string(nil), ops...), "restart"), -1, "", "", 0, 0, false); res != nil {
		*viols = append(*viols, vs...)
		emit(res, []string{fmt.Sprintf("segment size %d", segSize), "run: " + strings.Join(ops, " ; "), "no fault"})
		stats["fault-model:runs"]++
	}
	for si := 1; si < len(spans); si++ {
		sp := spans[si]
		end := len(events)
		if si+1 < len(spans) {
			end = spans[si+1].start
		}
		evs := events[sp.start:end]
		_, mapped := canonActions(evs, false)
		k := 0
		for i, ev := range evs {
			if !mapped[i] {
				continue
			}
			// which occurrence of (kind, name) inside this call
			nth := 0
			for _, e2 := range evs[:i+1] {
				if e2.Kind == ev.Kind && e2.Name == ev.Name {
					nth++
				}
			}
			variants := []struct {
				wf     string
				landed int
			}{{"nothing", 0}}
			if ev.Kind == "write" {
				variants = append(variants, struct {
					wf     string
					landed int
				}{"garbage", 13}, struct {
					wf     string
					landed int
				}{"whole", 1 << 30})
			}
			for _, v := range variants {
				for _, persistent := range []bool{false, true} {
					if persistent && (v.wf == "garbage" || r.Intn(2) == 0) {
						continue
					}
					full := append(append([]string(nil), ops...), "restart")
					res, fired, vs := fmRun(segSize, full, opIdx[si-1], faultKindOf(ev.Kind), ev.Name, nth, v.landed, persistent)
					*viols = append(*viols, vs...)
					if res == nil || !fired {
						stats["fault-model:not-fired"]++
						continue
					}
					mode := "once"
					if persistent {
						mode = "and every later " + ev.Kind + " until the call returns"
						stats["fault-model:persistent"]++
					}
					emit(res, []string{fmt.Sprintf("segment size %d", segSize), "run: " + strings.Join(full, " ; "),
						fmt.Sprintf("the %s of %s (I/O action %d of call %d: %s) fails (%s), bytes landed: %s; fault plan of that call as it happened: %s", ev.Kind, ev.Name, k, opIdx[si-1], clipS(sp.op), mode, v.wf, res[opIdx[si-1]].plan)})
					stats["fault-model:runs"]++
					stats["fault-model:"+ev.Kind]++
				}
			}
			k++
		}
	}
	_ = wal.ErrClosed
}

func runFaultModelCases(cases []*cmCase, rep *Report) {
	var lines []string
	for _, c := range cases {
		lines = append(lines, c.lines...)
	}
	if len(lines) == 0 {
		return
	}
	model, err := runDriver("faultm", lines)
	if err != nil {
		rep.Divergences = append(rep.Divergences, Divergence{Props: []string{"C10"}, Case: "fault-model", Op: "run driver", Model: err.Error()})
		return
	}
	pos := 0
	nd := 0
	for ci, c := range cases {
		base := pos
		pos += len(c.lines)
		for i, l := range c.lines {
			m := model[base+i]
			if c.expect[i] == "" || c.expect[i] == m {
				rep.Dist["fault_model_lines_compared"]++
				continue
			}
			rep.Dist["fault_model_divergences"]++
			if nd < 5 {
				nd++
				props := []string{"C10", "C01"}
				if strings.Contains(l, " setu ") {
					props = []string{"C10", "C08"}
				}
				rep.Divergences = append(rep.Divergences, Divergence{Props: props, Case: fmt.Sprintf("fault-model-%d", ci),
					Ops: append(append([]string(nil), c.replays[i]...), "model lines: "+strings.Join(clip(c.lines[:i+1], 14), " | ")), At: i, Op: l, Impl: c.expect[i], Model: m})
			}
			break
		}
	}
}

func suiteFaultModel(seed uint64, tier string) *Report {
	rep := newReport("faultmodel", seed, tier)
	rep.Rule = "workloads of appends (filling segments), head/tail/whole-log truncations, base-index resets, stable sets and restarts on the real WAL over simfs; for every call and every I/O action of it (the background rotation's included) a run in which exactly that action fails (writes: nothing / part / all of the batch lands); per call the result and the log readers see, after every restart the recovered log, compared with Model.Fault. Non-trivial = a run whose fault fired."
	r := NewRng(seed ^ 0xfa07)
	nw := 8
	if tier == "thorough" {
		nw = 60
	}
	simfs.OpenWriterDirSyncs = probeOpenWriterDirSyncs()
	var cases []*cmCase
	var viols []Violation
	for k := 0; k < nw; k++ {
		cr := r.Fork()
		segSize, ops := genCrashWorkload(cr)
		ops = ops[1:]
		// continuation after the fault: two more appends at wherever the log then ends are part of the generated
		// workload only when they are legal in the fault-free run; a restart in the middle now and then
		if cr.Chance(1, 3) && len(ops) > 2 {
			at := 1 + cr.Intn(len(ops)-1)
			ops = append(append(append([]string(nil), ops[:at]...), "restart"), ops[at:]...)
		}
		faultModelTie(segSize, ops, cr, &cases, rep.Dist, &viols)
		rep.Cases++
		if len(rep.Samples) < 3 {
			rep.Samples = append(rep.Samples, map[string]any{"segment_size": segSize, "ops": clip(ops, 10)})
		}
	}
	rep.Ops = len(cases)
	rep.NonTrivial = rep.Dist["fault-model:runs"]
	runFaultModelCases(cases, rep)
	// per property at most a handful of reports
	cnt := map[string]int{}
	for _, v := range viols {
		if cnt[v.Property] < 5 {
			cnt[v.Property]++
			rep.Violations = append(rep.Violations, v)
		}
	}
	return rep
}

func init() { suites["faultmodel"] = suiteFaultModel }
