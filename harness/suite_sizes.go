package main

import (
	"bytes"
	"fmt"
	"github.com/hashicorp/raft"
	wal "github.com/hashicorp/raft-wal"
	"strings"
	"time"

	"github.com/hashicorp/raft-wal/segment"
	"github.com/hashicorp/raft-wal/types"
	"verifharness/simfs"
)

// sizes suite (C15): real payloads at the size boundaries (padding residues, 64 KiB ± 16, segment size ± frame
// overhead, 64 MiB ± 1) × segment sizes × batch positions through the real segment writer/reader; the model
// answers on sizes only. Monitor: whatever Append acknowledged must read back identically.

func fillPattern(n int, seed byte) []byte {
	b := make([]byte, n)
	for i := range b {
		b[i] = byte(i*7) ^ seed ^ byte(i>>8)
	}
	return b
}

// op: big <size> <segSize> <pos> <batchLen>   — append a batch of batchLen entries to a fresh segment, the entry at
// position pos has <size> bytes, the others 10 bytes; then read every entry back (tail reader), and if the segment
// sealed, through a sealed reader as well.
func execSizesOp(op string) string {
	ws := strings.Fields(op)
	if ws[0] == "case" {
		return "case"
	}
	if ws[0] == "walbatch" {
		// walbatch s1 s2 …: one StoreLogs call through the whole WAL (codec, segment writer, rotation) with entries of these
		// Data sizes, each within the documented maximum; every entry must be stored and read back identically
		d := simfs.New()
		d.Record = false
		w, err := openWalOn(d, 1<<20, nil)
		if err != nil {
			return "open-err"
		}
		defer w.Close()
		var logs []*raft.Log
		for i, x := range ws[1:] {
			logs = append(logs, &raft.Log{Index: uint64(i + 1), Term: 1, Type: raft.LogCommand, Data: fillPattern(int(atoiU(x)), byte(i))})
		}
		if err := w.StoreLogs(logs); err != nil {
			return "err"
		}
		w.DeleteRange(^uint64(0), ^uint64(0))
		for _, l := range logs {
			var back raft.Log
			if err := w.GetLog(l.Index, &back); err != nil {
				return fmt.Sprintf("ok unreadable idx=%d (%v)", l.Index, walClass(err))
			}
			if !bytes.Equal(back.Data, l.Data) {
				return fmt.Sprintf("ok corrupted idx=%d", l.Index)
			}
		}
		return "ok readable"
	}
	if ws[0] == "capped" {
		// capped <segSize> s1 s2 …: a WAL on storage whose segment files cannot grow beyond the size they were created with
		// (a crossing write lands what fits and returns io.EOF); one StoreLogs per entry. Whatever is acknowledged must read
		// back identically, live and after Close/Open; a refused entry must stay invisible.
		d := simfs.New()
		d.Record = false
		d.CapFiles = true
		segSize := int(atoiU(ws[1]))
		w, err := openWalOn(d, segSize, nil)
		if err != nil {
			return "open-err"
		}
		acked := map[uint64][]byte{}
		next := uint64(1)
		check := func(w *wal.WAL, when string) string {
			la, _ := w.LastIndex()
			if la != next-1 {
				return fmt.Sprintf("BAD %s: LastIndex=%d, %d entries acknowledged", when, la, next-1)
			}
			for idx, want := range acked {
				var back raft.Log
				if err := w.GetLog(idx, &back); err != nil {
					return fmt.Sprintf("BAD %s: acknowledged entry %d (%d bytes) unreadable (%v)", when, idx, len(want), walClass(err))
				}
				if !bytes.Equal(back.Data, want) {
					return fmt.Sprintf("BAD %s: acknowledged entry %d altered", when, idx)
				}
			}
			return ""
		}
		for i, x := range ws[2:] {
			l := &raft.Log{Index: next, Term: 1, Type: raft.LogCommand, Data: fillPattern(int(atoiU(x)), byte(i+3))}
			if err := w.StoreLogs([]*raft.Log{l}); err == nil {
				acked[next] = l.Data
				next++
			}
			w.DeleteRange(^uint64(0), ^uint64(0))
			if r := check(w, "live"); r != "" {
				w.Close()
				return r
			}
		}
		w.Close()
		w, err = openWalOn(d, segSize, nil)
		if err != nil {
			return "BAD reopen failed: " + err.Error()
		}
		defer w.Close()
		if r := check(w, "after Close/Open"); r != "" {
			return r
		}
		return "ok"
	}
	if ws[0] == "walreopen" {
		// walreopen <pre> s1 s2 …: like walbatch, in a tail that (pre=1) already holds an earlier commit; then Close and
		// Open: recovery validates the last batch again — every acknowledged entry must still be there, identical
		d := simfs.New()
		d.Record = false
		w, err := openWalOn(d, 32<<20, nil)
		if err != nil {
			return "open-err"
		}
		var logs []*raft.Log
		next := uint64(1)
		if ws[1] == "1" {
			l := &raft.Log{Index: next, Term: 1, Type: raft.LogCommand, Data: fillPattern(100, 7)}
			if err := w.StoreLogs([]*raft.Log{l}); err != nil {
				w.Close()
				return "pre-err"
			}
			logs = append(logs, l)
			next++
		}
		var batch []*raft.Log
		for i, x := range ws[2:] {
			batch = append(batch, &raft.Log{Index: next, Term: 1, Type: raft.LogCommand, Data: fillPattern(int(atoiU(x)), byte(i+1))})
			next++
		}
		if err := w.StoreLogs(batch); err != nil {
			w.Close()
			return "err"
		}
		logs = append(logs, batch...)
		w.DeleteRange(^uint64(0), ^uint64(0))
		w.Close()
		w, err = openWalOn(d, 32<<20, nil)
		if err != nil {
			return "ok reopen-failed"
		}
		defer w.Close()
		if la, _ := w.LastIndex(); la != next-1 {
			return fmt.Sprintf("ok lost-after-reopen last=%d want=%d", la, next-1)
		}
		for _, l := range logs {
			var back raft.Log
			if err := w.GetLog(l.Index, &back); err != nil {
				return fmt.Sprintf("ok unreadable-after-reopen idx=%d (%v)", l.Index, walClass(err))
			}
			if !bytes.Equal(back.Data, l.Data) {
				return fmt.Sprintf("ok corrupted-after-reopen idx=%d", l.Index)
			}
		}
		return "ok readable"
	}
	var sizesOfBatch []int
	segSize, pre := 0, false
	if ws[0] == "multi" {
		// multi <segSize> <pre> s1 s2 …: one batch with these entry sizes; pre=1: after an earlier small append
		segSize, pre = int(atoiU(ws[1])), ws[2] == "1"
		for _, x := range ws[3:] {
			sizesOfBatch = append(sizesOfBatch, int(atoiU(x)))
		}
	} else {
		size, ss, pos, blen := int(atoiU(ws[1])), int(atoiU(ws[2])), int(atoiU(ws[3])), int(atoiU(ws[4]))
		segSize = ss
		for i := 0; i < blen; i++ {
			n := 10
			if i == pos {
				n = size
			}
			sizesOfBatch = append(sizesOfBatch, n)
		}
	}
	d := simfs.New()
	d.Record = false
	f := segment.NewFiler("d", d)
	info := types.SegmentInfo{ID: 1, BaseIndex: 1, MinIndex: 1, SizeLimit: uint32(segSize), CreateTime: time.Unix(1, 0)}
	w, err := f.Create(info)
	if err != nil {
		return "create-err"
	}
	first := uint64(1)
	if pre {
		if err := w.Append([]types.LogEntry{{Index: 1, Data: fillPattern(20, 9)}}); err != nil {
			return "pre-err"
		}
		first = 2
	}
	var batch []types.LogEntry
	for i, n := range sizesOfBatch {
		batch = append(batch, types.LogEntry{Index: first + uint64(i), Data: fillPattern(n, byte(i))})
	}
	blen := len(batch) + int(first) - 1
	if err := w.Append(batch); err != nil {
		return "err"
	}
	// acknowledged: everything must be readable
	for i, e := range batch {
		pb, err := w.GetLog(e.Index)
		if err != nil {
			return fmt.Sprintf("ok unreadable idx=%d (%v)", i+1, segClass(err))
		}
		same := bytes.Equal(pb.Bs, e.Data)
		pb.Close()
		if !same {
			return fmt.Sprintf("ok corrupted idx=%d", i+1)
		}
	}
	// a crash right after the acknowledgement: the file is recovered as the tail (also when the batch sealed it: the
	// rotation had not been committed yet) — the scan of recovery must take every frame the writer accepted
	{
		sealedBefore, _, _ := w.Sealed()
		lastBefore := w.LastIndex()
		w2, err := f.RecoverTail(info)
		if err != nil {
			return fmt.Sprintf("ok recover-failed (%v)", segClass(err))
		}
		if la := w2.LastIndex(); la != lastBefore {
			return fmt.Sprintf("ok lost-by-recovery last=%d want=%d", la, lastBefore)
		}
		if sb, _, _ := w2.Sealed(); sb != sealedBefore {
			return fmt.Sprintf("ok recovery-seal-mismatch %v want %v", sb, sealedBefore)
		}
		for i, e := range batch {
			pb, err := w2.GetLog(e.Index)
			if err != nil {
				return fmt.Sprintf("ok unreadable-after-recovery idx=%d (%v)", i+1, segClass(err))
			}
			same := bytes.Equal(pb.Bs, e.Data)
			pb.Close()
			if !same {
				return fmt.Sprintf("ok corrupted-after-recovery idx=%d", i+1)
			}
		}
	}
	sealed, is, _ := w.Sealed()
	if sealed {
		info.IndexStart = is
		info.MaxIndex = uint64(blen)
		info.SealTime = time.Unix(2, 0)
		r, err := f.Open(info)
		if err != nil {
			return "ok sealed-open-err"
		}
		for i, e := range batch {
			pb, err := r.GetLog(e.Index)
			if err != nil {
				return fmt.Sprintf("ok sealed-unreadable idx=%d (%v)", i+1, segClass(err))
			}
			same := bytes.Equal(pb.Bs, e.Data)
			pb.Close()
			if !same {
				return fmt.Sprintf("ok sealed-corrupted idx=%d", i+1)
			}
		}
		return "ok readable sealed"
	}
	return "ok readable"
}

func execSizes(ops []string) []string {
	out := make([]string, len(ops))
	for i, op := range ops {
		out[i] = safeExec(func() string { return execSizesOp(op) })
	}
	return out
}

func sizesMonitor(ops, impl []string) []Violation {
	var vs []Violation
	for i, op := range ops {
		out := impl[i]
		if out == "panic" {
			vs = append(vs, Violation{Property: "C11", What: "segment code panicked on a size boundary", Ops: []string{op}, Impl: []string{out}})
			vs = append(vs, Violation{Property: "C15", What: "entries of a size within the documented maximum are neither stored nor refused with an error (panic)", Ops: []string{op}, Impl: []string{out}})
		}
		if out == "err" {
			// refused: legitimate only when some entry exceeds the documented maximum
			ws := strings.Fields(op)
			var sz []uint64
			limit := uint64(64 << 20)
			switch ws[0] {
			case "walbatch":
				limit -= 40 // Data size + codec fields
				for _, x := range ws[1:] {
					sz = append(sz, atoiU(x))
				}
			case "walreopen":
				limit -= 40
				for _, x := range ws[2:] {
					sz = append(sz, atoiU(x))
				}
			case "multi":
				for _, x := range ws[3:] {
					sz = append(sz, atoiU(x))
				}
			case "big":
				sz = append(sz, atoiU(ws[1]))
			}
			within := len(sz) > 0
			for _, n := range sz {
				if n > limit {
					within = false
				}
			}
			if within {
				vs = append(vs, Violation{Property: "C15", What: "entries each within the documented maximum size are refused", Detail: out, Ops: []string{op}, Impl: []string{out}})
			}
		}
		if strings.HasPrefix(out, "BAD ") {
			vs = append(vs, Violation{Property: "C15", What: "on storage with fixed-size files: an acknowledged entry is not readable / the log is not what was acknowledged", Detail: out, Ops: []string{op}, Impl: []string{out}})
		}
		if strings.HasPrefix(out, "ok ") && !strings.HasPrefix(out, "ok readable") {
			vs = append(vs, Violation{Property: "C15", What: "an entry the WAL acknowledged cannot be read back identically", Detail: out, Ops: []string{op}, Impl: []string{out}})
			// the same observation is a failure of "GetLog returns the stored entry for every index in [First, Last]" (C05)
			// and of "StoreLogs followed by GetLog returns an equal log" across the 64 KiB buffer boundary (C12)
			vs = append(vs, Violation{Property: "C05", What: "GetLog does not return the stored entry (entry size relative to the 64 KiB read buffer / segment size)", Detail: out, Ops: []string{op}, Impl: []string{out}})
			vs = append(vs, Violation{Property: "C12", What: "StoreLogs followed by GetLog does not return an equal log (entry size relative to the 64 KiB read buffer)", Detail: out, Ops: []string{op}, Impl: []string{out}})
		}
	}
	return vs
}

func suiteSizes(seed uint64, tier string) *Report {
	rep := newReport("sizes", seed, tier)
	rep.Rule = "entry sizes in neighbourhoods of 0, every padding residue, 64 KiB ± 16 (pooled read buffer), segment size ± frame overhead, 64 MiB ± 1 (MaxEntrySize), crossed with segment sizes {512, 4 KiB, 64 KiB, 1 MiB} and batch positions (first, middle, last of 1–3); real payloads through the real writer and both readers. Non-trivial = size ≥ 64 KiB − 16 or the segment sealed; distinct by (size class, segment size, position)."
	r := NewRng(seed ^ 0x515e)
	const KiB, MiB = 1024, 1024 * 1024
	sizes := []int{0, 1, 2, 3, 4, 5, 6, 7, 8, 9, 15, 16, 17}
	for d := -16; d <= 16; d += 4 {
		sizes = append(sizes, 64*KiB+d)
	}
	sizes = append(sizes, 64*KiB-8, 64*KiB-9, 64*KiB-7, 64*KiB+1, 64*KiB-1)
	segSizes := []int{512, 4 * KiB, 64 * KiB, MiB}
	for _, ss := range segSizes {
		for _, d := range []int{-64, -48, -41, -40, -33, -32, -24, -16, -9, -8, -1, 0, 1, 8, 16} {
			if ss+d > 0 {
				sizes = append(sizes, ss+d)
			}
		}
	}
	big := []int{64*MiB - 1, 64 * MiB, 64*MiB + 1}
	if tier == "thorough" {
		big = append(big, 64*MiB-8, 64*MiB+8, 64*MiB-7, 32*MiB)
	}
	c := &Case{ID: fmt.Sprintf("sizes-%d", seed), Props: []string{"C15"}, Exec: execSizes, Monitor: sizesMonitor, NonTrivial: true, Shape: "sizes"}
	shapes := map[string]bool{}
	for _, n := range sizes {
		ss := pick(r, segSizes)
		blen := 1 + r.Intn(3)
		pos := r.Intn(blen)
		c.Ops = append(c.Ops, fmt.Sprintf("big %d %d %d %d", n, ss, pos, blen))
		shapes[fmt.Sprintf("%d/%d/%d", sizeClass(n), ss, pos)] = true
	}
	nbig := 2
	if tier == "thorough" {
		nbig = len(big)
	}
	for _, n := range big[:nbig] {
		c.Ops = append(c.Ops, fmt.Sprintf("big %d %d %d %d", n, MiB, 0, 1))
		shapes[fmt.Sprintf("big/%d", n)] = true
	}
	// batches of 2–3 entries whose frames together end within a few bytes of the writer's 64 KiB commit buffer, every
	// padding residue, as the first batch of a fresh file (header still pending in the buffer) and after earlier data
	nm := 120
	if tier == "thorough" {
		nm = 1500
	}
	for k := 0; k < nm; k++ {
		ne := 2 + r.Intn(2)
		pre := r.Intn(2)
		total := 64*KiB - 24 + r.Intn(33) // sum over the frames of 8 + len (+ 32 for the pending file header)
		if pre == 0 {
			total -= 32
		}
		total -= 8 * ne
		var ss []string
		rest := total
		for j := 0; j < ne; j++ {
			n := rest
			if j < ne-1 {
				n = total/ne - 12 + r.Intn(25)
				rest -= n
			}
			ss = append(ss, fmt.Sprint(n))
		}
		c.Ops = append(c.Ops, fmt.Sprintf("multi %d %d %s", MiB, pre, strings.Join(ss, " ")))
		shapes[fmt.Sprintf("multi/%d/%d/%d", ne, pre, total%8)] = true
	}
	// whole-WAL batches whose entries are each within the maximum while their total is not
	c.Ops = append(c.Ops, fmt.Sprintf("walbatch %d %d %d", 24*MiB, 24*MiB, 24*MiB))
	c.Ops = append(c.Ops, fmt.Sprintf("walbatch 64 %d", 64*MiB-64))
	shapes["walbatch"] = true
	// batches on both sides of the 64 KiB read/commit buffers, as the first and as a later commit of the tail, through a restart
	for _, pre := range []int{0, 1} {
		for _, sz := range [][]int{{64*KiB - 200}, {64*KiB - 16}, {64 * KiB}, {64*KiB + 16}, {3 * 64 * KiB}, {70 * KiB, 10}, {10, 70 * KiB}, {30 * KiB, 30 * KiB, 30 * KiB}, {MiB + r.Intn(100)}} {
			var ss []string
			for _, n := range sz {
				ss = append(ss, fmt.Sprint(n+r.Intn(8)))
			}
			c.Ops = append(c.Ops, fmt.Sprintf("walreopen %d %s", pre, strings.Join(ss, " ")))
		}
	}
	shapes["walreopen"] = true
	// fixed-size segment files: entries that fit, that cross the end of the file, that are larger than a whole segment
	for _, segSize := range []int{4 * KiB, 64 * KiB} {
		c.Ops = append(c.Ops, fmt.Sprintf("capped %d %d %d %d %d %d %d %d", segSize, 100, segSize/2, segSize-200+r.Intn(64), 10, 2*segSize, segSize-40-r.Intn(16), 50))
	}
	shapes["capped"] = true
	// the boundary itself is always exercised
	c.Ops = append(c.Ops, fmt.Sprintf("big %d %d 1 2", 64*MiB+1, 4*KiB))
	c.Impl = execSizes(c.Ops)
	rep.Dist["distinct_shapes"] = len(shapes)
	RunCases("sizes", []*Case{c}, rep)
	rep.NonTrivial = len(shapes)
	return rep
}

func init() { suites["sizes"] = suiteSizes }
