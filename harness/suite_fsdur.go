package main

import (
	"bufio"
	"errors"
	"fmt"
	"math"
	"os"
	"os/exec"
	"path/filepath"
	"regexp"
	"strings"
	"syscall"

	"github.com/hashicorp/go-hclog"
	"github.com/hashicorp/raft"
	wal "github.com/hashicorp/raft-wal"
	"github.com/hashicorp/raft-wal/fs"
	"github.com/hashicorp/raft-wal/metadb"
	"github.com/hashicorp/raft-wal/segment"
	"github.com/hashicorp/raft-wal/types"
)

// fsdur suite (C07): the production fs/ and metadb/ packages under strace.
//  part 1 — every call of the VFS layer (Create, first/later Sync, Delete, OpenWriter+Sync, meta DB init) between
//           markers; its canonical system-call sequence must equal Model.OsFs's (correspondence);
//  part 2 — whole WAL workloads (create, fill, seal, rotate, truncate head/tail, reset base, reopen) on the real
//           filesystem + BoltDB; the durability-contract monitor is evaluated on the system-call trace.
// No source hooks: strace sees the system calls themselves, so deleting an fsync call cannot go unnoticed.

func marker(label string) {
	var st syscall.Stat_t
	syscall.Stat("/verif-marker/"+label, &st)
}

// ---- the traced child: `harness fsdurwork <dir> <seed>` ----

func fsdurWork(args []string) int {
	dir := args[0]
	seed := atoiU(args[1])
	r := NewRng(seed ^ 0xf5d)
	// part 1: VFS-level calls
	v := fs.New()
	vdir := filepath.Join(dir, "vfs")
	os.MkdirAll(vdir, 0o755)
	for i, size := range []uint64{4096, 65536, 512} {
		name := fmt.Sprintf("%020d-%016x.wal", i+1, i)
		marker(fmt.Sprintf("vfs-begin create %s %d", name, size))
		f, err := v.Create(vdir, name, size)
		marker("vfs-end")
		if err != nil {
			fmt.Println("RESULT create-err", err)
			return 1
		}
		// direct checks of what Create produced: exclusive, zero-filled to size
		st, _ := os.Stat(filepath.Join(vdir, name))
		buf := make([]byte, size)
		n, _ := f.ReadAt(buf, 0)
		zero := true
		for _, b := range buf[:n] {
			if b != 0 {
				zero = false
			}
		}
		_, err2 := v.Create(vdir, name, size)
		fmt.Printf("RESULT create %s size=%d read=%d zero=%v second-create-fails=%v\n", name, st.Size(), n, zero, err2 != nil)
		f.WriteAt([]byte("12345678"), 0)
		marker(fmt.Sprintf("vfs-begin sync %s 1", name))
		f.Sync()
		marker("vfs-end")
		f.WriteAt([]byte("abcdefgh"), 8)
		marker(fmt.Sprintf("vfs-begin sync %s 0", name))
		f.Sync()
		marker("vfs-end")
		f.Close()
		marker(fmt.Sprintf("vfs-begin openw %s", name))
		g, _ := v.OpenWriter(vdir, name)
		marker("vfs-end")
		g.WriteAt([]byte("x"), 16)
		first := 0
		if _, wrapped := g.(*fs.File); wrapped {
			first = 1
		}
		marker(fmt.Sprintf("vfs-begin sync %s %d", name, first))
		g.Sync()
		marker("vfs-end")
		g.Close()
		marker(fmt.Sprintf("vfs-begin delete %s", name))
		v.Delete(vdir, name)
		marker("vfs-end")
	}
	mdir := filepath.Join(dir, "meta")
	os.MkdirAll(mdir, 0o755)
	marker("vfs-begin metainit wal-meta.db.tmp wal-meta.db")
	db := &metadb.BoltMetaDB{}
	_, err := db.Load(mdir)
	marker("vfs-end")
	if err != nil {
		fmt.Println("RESULT metainit-err", err)
	}
	db.Close()

	// part 2: WAL workloads
	for wl := 0; wl < 3; wl++ {
		wdir := filepath.Join(dir, fmt.Sprintf("wal%d", wl))
		os.MkdirAll(wdir, 0o755)
		segSize := pick(r, []int{512, 1024, 4096})
		marker(fmt.Sprintf("op-begin open %d", segSize))
		w, err := wal.Open(wdir, wal.WithSegmentSize(segSize), wal.WithLogger(hclog.NewNullLogger()))
		marker("op-end ok")
		if err != nil {
			fmt.Println("RESULT open-err", err)
			return 1
		}
		next := pick(r, []uint64{1, 1, 50})
		first := next
		do := func(label string, f func() error) {
			marker("op-begin " + label)
			err := f()
			// let a background rotation finish inside the op's window
			w.DeleteRange(math.MaxUint64, math.MaxUint64)
			if err != nil {
				marker("op-end err")
			} else {
				marker("op-end ok")
			}
		}
		for k := 0; k < 14; k++ {
			switch x := r.Intn(10); {
			case x < 6 || next-first < 3:
				n := 1 + r.Intn(3)
				var logs []*raft.Log
				for j := 0; j < n; j++ {
					logs = append(logs, &raft.Log{Index: next + uint64(j), Term: 1, Data: r.Bytes(20 + r.Intn(200))})
				}
				do(fmt.Sprintf("store %d %d", next, n), func() error { return w.StoreLogs(logs) })
				next += uint64(n)
			case x < 8:
				upto := first + uint64(r.Intn(int(next-first-1)))
				do(fmt.Sprintf("del %d %d", first, upto), func() error { return w.DeleteRange(first, upto) })
				first = upto + 1
			case x < 9:
				from := first + 1 + uint64(r.Intn(int(next-first-1)))
				do(fmt.Sprintf("del %d %d", from, next-1), func() error { return w.DeleteRange(from, next-1) })
				next = from
			default:
				marker("op-begin reopen")
				w.Close()
				w, err = wal.Open(wdir, wal.WithSegmentSize(segSize), wal.WithLogger(hclog.NewNullLogger()))
				marker("op-end ok")
				if err != nil {
					fmt.Println("RESULT reopen-err", err)
					return 1
				}
			}
		}
		// empty the log and restart at another index (base-index reset)
		do(fmt.Sprintf("del %d %d", first, next-1), func() error { return w.DeleteRange(first, next-1) })
		do("store 9000 1", func() error { return w.StoreLogs([]*raft.Log{{Index: 9000, Term: 2, Data: []byte("reset")}}) })
		marker("op-begin close")
		w.Close()
		marker("op-end ok")
	}
	// part 2b: two logs in two directories, used in turn by this one process (a server with more than one raft group):
	// what one of them fsyncs says nothing about the other's directory — the first commit into a segment file that a
	// rotation of log A created is acknowledged only after an fsync of A's directory, whatever B did in between
	{
		var ws [2]*wal.WAL
		var next [2]uint64
		var first [2]uint64
		for k := 0; k < 2; k++ {
			wdir := filepath.Join(dir, fmt.Sprintf("walpair%d", k))
			os.MkdirAll(wdir, 0o755)
			marker("op-begin open 512")
			w, err := wal.Open(wdir, wal.WithSegmentSize(512), wal.WithLogger(hclog.NewNullLogger()))
			marker("op-end ok")
			if err != nil {
				fmt.Println("RESULT open-err", err)
				return 1
			}
			ws[k], next[k], first[k] = w, 1, 1
		}
		do2 := func(k int, label string, f func() error) {
			marker("op-begin " + label)
			err := f()
			ws[k].DeleteRange(math.MaxUint64, math.MaxUint64)
			if err != nil {
				marker("op-end err")
			} else {
				marker("op-end ok")
			}
		}
		for round := 0; round < 8; round++ {
			for k := 0; k < 2; k++ {
				n := 1 + r.Intn(2)
				var logs []*raft.Log
				for j := 0; j < n; j++ {
					logs = append(logs, &raft.Log{Index: next[k] + uint64(j), Term: 1, Data: r.Bytes(150 + r.Intn(150))})
				}
				kk := k
				do2(k, fmt.Sprintf("store %d %d", next[k], n), func() error { return ws[kk].StoreLogs(logs) })
				next[k] += uint64(n)
			}
			if round%3 == 2 {
				// a head truncation in B deletes segment files there: unlink + fsync of B's directory
				k := 1
				upto := first[k] + (next[k]-first[k])/2
				do2(k, fmt.Sprintf("del %d %d", first[k], upto), func() error { return ws[k].DeleteRange(first[k], upto) })
				first[k] = upto + 1
			}
		}
		for k := 0; k < 2; k++ {
			marker("op-begin close")
			ws[k].Close()
			marker("op-end ok")
		}
	}
	// part 3: a process that dies (here: whose every fsync fails, then abandons the WAL) after the first batch was
	// written into a newly created segment file but before any fsync of it succeeded — the file's directory entry
	// has never been made durable. The next "process" (stock storage layer) recovers the CRC-valid batch from the
	// page cache; its first acknowledged append must not return before the directory has been fsynced.
	for variant := 0; variant < 2; variant++ {
		wdir := filepath.Join(dir, fmt.Sprintf("walcrash%d", variant))
		os.MkdirAll(wdir, 0o755)
		fv := &failSyncVFS{VFS: fs.New()}
		marker("op-begin open 4096")
		w, err := wal.Open(wdir, wal.WithSegmentSize(4096), wal.WithLogger(hclog.NewNullLogger()), wal.WithSegmentFiler(segment.NewFiler(wdir, fv)))
		marker("op-end ok")
		if err != nil {
			fmt.Println("RESULT open-err", err)
			return 1
		}
		next := uint64(1)
		store := func(label string, n, size int) error {
			var logs []*raft.Log
			for j := 0; j < n; j++ {
				logs = append(logs, &raft.Log{Index: next + uint64(j), Term: 1, Data: r.Bytes(size)})
			}
			marker(fmt.Sprintf("op-begin %s %d %d", label, next, n))
			err := w.StoreLogs(logs)
			w.DeleteRange(math.MaxUint64, math.MaxUint64)
			if err != nil {
				marker("op-end err")
			} else {
				marker("op-end ok")
				next += uint64(n)
			}
			return err
		}
		if variant == 1 {
			// the never-synced file is the one a rotation created
			store("store", 2, 1500)
			store("store", 2, 1500)
		}
		fv.fail = true
		if err := store("storefail", 2, 100); err == nil {
			fmt.Println("RESULT storefail-unexpectedly-ok")
		}
		marker("op-begin reopen")
		w.Close()
		w, err = wal.Open(wdir, wal.WithSegmentSize(4096), wal.WithLogger(hclog.NewNullLogger()))
		marker("op-end ok")
		if err != nil {
			fmt.Println("RESULT reopen-err", err)
			return 1
		}
		if li, _ := w.LastIndex(); li >= next {
			next = li + 1 // recovery accepted the batch whose fsync had failed
		}
		store("store", 1, 50)
		store("store", 1, 50)
		marker("op-begin close")
		w.Close()
		marker("op-end ok")
	}
	// part 4: the directory is removed and re-created at the same path while the process lives (a restore that wipes
	// the data directory, a test harness): directory fsyncs must reach the directory that now holds the files
	{
		wdir := filepath.Join(dir, "walrecreate")
		next := uint64(1)
		for round := 0; round < 2; round++ {
			os.MkdirAll(wdir, 0o755)
			marker("op-begin open 4096")
			w, err := wal.Open(wdir, wal.WithSegmentSize(4096), wal.WithLogger(hclog.NewNullLogger()))
			marker("op-end ok")
			if err != nil {
				fmt.Println("RESULT open-err", err)
				return 1
			}
			for k := 0; k < 3; k++ {
				logs := []*raft.Log{{Index: next, Term: 1, Data: r.Bytes(1500)}, {Index: next + 1, Term: 1, Data: r.Bytes(1500)}}
				marker(fmt.Sprintf("op-begin store %d 2", next))
				err := w.StoreLogs(logs)
				w.DeleteRange(math.MaxUint64, math.MaxUint64)
				if err != nil {
					marker("op-end err")
				} else {
					marker("op-end ok")
				}
				next += 2
			}
			marker(fmt.Sprintf("op-begin del %d %d", 1, next-3))
			w.DeleteRange(1, next-3)
			marker("op-end ok")
			marker("op-begin close")
			w.Close()
			marker("op-end ok")
			if round == 0 {
				os.RemoveAll(wdir) // outside any call window; the path exists again (re-created) when the trace is parsed
			}
			next = 1
		}
	}
	return 0
}

// failSyncVFS: the production VFS, except that once `fail` is set Sync on files it handed out returns an error
// without reaching the file system (neither the file nor its directory is fsynced).
type failSyncVFS struct {
	types.VFS
	fail bool
}

type failSyncFile struct {
	types.WritableFile
	v *failSyncVFS
}

func (f *failSyncFile) Sync() error {
	if f.v.fail {
		return errors.New("injected: fsync failed")
	}
	return f.WritableFile.Sync()
}

func (v *failSyncVFS) Create(dir, name string, size uint64) (types.WritableFile, error) {
	f, err := v.VFS.Create(dir, name, size)
	if err != nil {
		return nil, err
	}
	return &failSyncFile{WritableFile: f, v: v}, nil
}

func (v *failSyncVFS) OpenWriter(dir, name string) (types.WritableFile, error) {
	f, err := v.VFS.OpenWriter(dir, name)
	if err != nil {
		return nil, err
	}
	return &failSyncFile{WritableFile: f, v: v}, nil
}

func init() { extraCommands["fsdurwork"] = fsdurWork }

// ---- trace parsing ----

type sysEv struct {
	call string // open-creat-excl, open-creat, open-rw, open-ro, fallocate, pwrite, fsync, fsync-dir, unlink, rename, marker
	path string
	arg  string
	raw  string
}

var (
	reLine    = regexp.MustCompile(`^(\d+)\s+(.*)$`)
	reFdPath  = regexp.MustCompile(`^\w+\((\d+)<([^>]*)>`)
	reOpen    = regexp.MustCompile(`^openat\([^,]*, "([^"]*)", ([A-Z_|0-9]+)`)
	reMarker  = regexp.MustCompile(`"/verif-marker/([^"]*)"`)
	reUnlink  = regexp.MustCompile(`^unlink(?:at)?\((?:[^,]*, )?"([^"]*)"`)
	reRename  = regexp.MustCompile(`^rename(?:at2?)?\((?:[^,"]*, )?"([^"]*)", (?:[^,"]*, )?"([^"]*)"`)
	reFalloc  = regexp.MustCompile(`^fallocate\((\d+)<([^>]*)>, (\d+), (\d+), (\d+)\)`)
	reRetFail = regexp.MustCompile(`= -1 `)
)

func parseTrace(path string, root string) ([]sysEv, error) {
	f, err := os.Open(path)
	if err != nil {
		return nil, err
	}
	defer f.Close()
	pending := map[string]string{}
	var out []sysEv
	sc := bufio.NewScanner(f)
	sc.Buffer(make([]byte, 1<<20), 1<<26)
	isDir := func(p string) bool {
		st, err := os.Stat(p)
		return err == nil && st.IsDir()
	}
	for sc.Scan() {
		m := reLine.FindStringSubmatch(sc.Text())
		if m == nil {
			continue
		}
		pid, rest := m[1], m[2]
		if strings.Contains(rest, "<unfinished ...>") {
			pending[pid] = strings.TrimSuffix(strings.TrimSpace(strings.Replace(rest, "<unfinished ...>", "", 1)), ",")
			continue
		}
		if strings.HasPrefix(rest, "<... ") {
			if p, ok := pending[pid]; ok {
				i := strings.Index(rest, "resumed>")
				rest = p + rest[i+len("resumed>"):]
				delete(pending, pid)
			} else {
				continue
			}
		}
		if mm := reMarker.FindStringSubmatch(rest); mm != nil && strings.HasPrefix(rest, "newfstatat") {
			out = append(out, sysEv{call: "marker", arg: mm[1], raw: rest})
			continue
		}
		if reRetFail.MatchString(rest) && !strings.HasPrefix(rest, "openat") {
			continue // failed calls have no effect (a failing O_EXCL open is kept for the record below)
		}
		switch {
		case strings.HasPrefix(rest, "openat("):
			mm := reOpen.FindStringSubmatch(rest)
			if mm == nil || !strings.HasPrefix(mm[1], root) {
				continue
			}
			if reRetFail.MatchString(rest) {
				continue
			}
			flags := mm[2]
			call := "open-ro"
			switch {
			case strings.Contains(flags, "O_DIRECTORY") || isDir(mm[1]):
				continue
			case strings.Contains(flags, "O_CREAT") && strings.Contains(flags, "O_EXCL"):
				call = "open-creat-excl"
			case strings.Contains(flags, "O_CREAT"):
				call = "open-creat"
			case strings.Contains(flags, "O_RDWR"):
				call = "open-rw"
			}
			out = append(out, sysEv{call: call, path: mm[1], raw: rest})
		case strings.HasPrefix(rest, "fallocate("):
			mm := reFalloc.FindStringSubmatch(rest)
			if mm != nil && strings.HasPrefix(mm[2], root) {
				out = append(out, sysEv{call: "fallocate", path: mm[2], arg: mm[5], raw: rest})
			}
		case strings.HasPrefix(rest, "pwrite64(") || strings.HasPrefix(rest, "write("):
			mm := reFdPath.FindStringSubmatch(rest)
			if mm != nil && strings.HasPrefix(mm[2], root) {
				out = append(out, sysEv{call: "pwrite", path: mm[2], raw: rest})
			}
		case strings.HasPrefix(rest, "fsync(") || strings.HasPrefix(rest, "fdatasync("):
			mm := reFdPath.FindStringSubmatch(rest)
			if mm != nil && strings.HasPrefix(mm[2], root) {
				if strings.Contains(rest, "<"+mm[2]+">(deleted)") {
					// strace -y: the descriptor refers to an object that no longer has a name (e.g. a directory that
					// was removed and re-created at the same path): this fsync protects nothing that is reachable
					out = append(out, sysEv{call: "fsync-deleted", path: mm[2], raw: rest})
				} else if isDir(mm[2]) {
					out = append(out, sysEv{call: "fsync-dir", path: mm[2], raw: rest})
				} else {
					out = append(out, sysEv{call: "fsync", path: mm[2], raw: rest})
				}
			}
		case strings.HasPrefix(rest, "unlink"):
			mm := reUnlink.FindStringSubmatch(rest)
			if mm != nil && strings.HasPrefix(mm[1], root) {
				out = append(out, sysEv{call: "unlink", path: mm[1], raw: rest})
			}
		case strings.HasPrefix(rest, "rename"):
			mm := reRename.FindStringSubmatch(rest)
			if mm != nil && strings.HasPrefix(mm[1], root) {
				out = append(out, sysEv{call: "rename", path: mm[1], arg: mm[2], raw: rest})
			}
		}
	}
	return out, nil
}

// canonical sequence of one VFS-level call: consecutive duplicates (several pwrites/fsyncs of bbolt's init) collapse
func canonSeq(evs []sysEv) string {
	var parts []string
	last := ""
	wdir := ""
	for _, e := range evs {
		if e.call != "fsync-dir" && e.call != "fsync-deleted" && e.path != "" {
			wdir = filepath.Dir(e.path)
			break
		}
	}
	for _, e := range evs {
		var s string
		b := filepath.Base(e.path)
		switch e.call {
		case "fallocate":
			s = fmt.Sprintf("fallocate %s %s", b, e.arg)
		case "fsync-dir":
			s = "fsync-dir"
			if wdir != "" && e.path != wdir {
				s = "fsync-dir-elsewhere " + b // a directory other than the one holding the files of this call
			}
		case "rename":
			s = fmt.Sprintf("rename %s %s", b, filepath.Base(e.arg))
		case "open-ro":
			continue
		default:
			s = e.call + " " + b
		}
		if s == last {
			continue
		}
		// bbolt alternates pwrite/fsync while initialising: collapse "pwrite X ; fsync X ; pwrite X ; fsync X"
		if len(parts) >= 2 && parts[len(parts)-2] == s && strings.HasPrefix(parts[len(parts)-1], "fsync ") && strings.HasPrefix(s, "pwrite ") {
			parts = parts[:len(parts)-1]
			last = s
			continue
		}
		parts = append(parts, s)
		last = s
	}
	return strings.Join(parts, " ; ")
}

// contract monitor over one WAL-level op window
func contractViolations(window []sysEv, label, result string, dirSynced map[string]bool) []string {
	var out []string
	lastWrite := map[string]int{}
	lastSync := map[string]int{}
	created := map[string]int{}
	lastDirSync := -1
	renamedFinal := false
	for i, e := range window {
		if e.call == "rename" && strings.HasSuffix(e.arg, "wal-meta.db") {
			renamedFinal = true
			// the rename must be followed by a directory fsync before the DB is used
			ok := false
			for _, f := range window[i+1:] {
				if f.call == "fsync-dir" && f.path == filepath.Dir(e.arg) {
					ok = true
					break
				}
				if f.call == "open-creat" && strings.HasSuffix(f.path, "wal-meta.db") {
					break
				}
			}
			if !ok {
				out = append(out, "meta DB renamed into place without an fsync of its directory before use")
			}
			// and preceded by an fsync of the temporary file after its last write
			lastW, lastS := -1, -1
			for j, f := range window[:i] {
				if strings.HasSuffix(f.path, "wal-meta.db.tmp") {
					if f.call == "pwrite" {
						lastW = j
					}
					if f.call == "fsync" {
						lastS = j
					}
				}
			}
			if lastW >= 0 && lastS < lastW {
				out = append(out, "meta DB renamed into place before its content was fsynced")
			}
		}
		isWal := strings.HasSuffix(e.path, ".wal")
		switch e.call {
		case "open-creat-excl":
			if isWal {
				created[e.path] = i
				dirSynced[e.path] = false
			}
		case "open-creat":
			if isWal {
				out = append(out, "segment file created without O_EXCL: "+filepath.Base(e.path))
			}
			if strings.HasSuffix(e.path, "wal-meta.db") && strings.HasPrefix(label, "open") && !renamedFinal {
				// first Open of a fresh directory: the final name may only appear through the rename
				out = append(out, "meta DB created directly under its final name")
			}
		case "pwrite":
			if isWal {
				lastWrite[e.path] = i
			}
		case "fsync":
			if isWal {
				lastSync[e.path] = i
			}
		case "fsync-dir":
			lastDirSync = i
			for p := range dirSynced {
				if filepath.Dir(p) == e.path {
					dirSynced[p] = true
				}
			}
		case "unlink":
			if isWal {
				// must be followed by a directory fsync inside this window
				ok := false
				for _, f := range window[i+1:] {
					if f.call == "fsync-dir" && f.path == filepath.Dir(e.path) {
						ok = true
						break
					}
				}
				if !ok {
					out = append(out, "segment deletion not followed by an fsync of its directory before the call returned: "+filepath.Base(e.path))
				}
			}
		}
	}
	_ = lastDirSync
	_ = created
	if strings.HasPrefix(label, "store") && result == "ok" {
		for p, wi := range lastWrite {
			if si, ok := lastSync[p]; !ok || si < wi {
				out = append(out, "StoreLogs returned nil before the bytes written to "+filepath.Base(p)+" were fsynced")
			}
			if synced, known := dirSynced[p]; known && !synced {
				out = append(out, "StoreLogs returned nil after the first commit into new segment "+filepath.Base(p)+" without an fsync of the directory")
			}
		}
	}
	return out
}

func suiteFsdur(seed uint64, tier string) *Report {
	rep := newReport("fsdur", seed, tier)
	rep.Rule = "the production fs.FS / fs.File / metadb.BoltMetaDB run under `strace -f -y`; part 1: each VFS-level call (Create at three sizes, first and later Sync on a created handle, OpenWriter + Sync, Delete, meta DB initialisation) between marker system calls, its canonicalised system-call sequence compared with Model.OsFs; part 2: WAL workloads on the real filesystem (appends filling segments, rotations, head/tail truncations, whole-log truncation and base-index reset, reopen), the durability-contract monitor evaluated per API call window. Non-trivial = a window containing at least one write, creation or deletion; distinct by canonical sequence."
	if _, err := exec.LookPath("strace"); err != nil {
		rep.Divergences = append(rep.Divergences, Divergence{Props: []string{"C07"}, Case: "strace", Op: "lookup", Impl: "strace not available", Model: ""})
		return rep
	}
	base := os.Getenv("VERIF_TMP")
	if base == "" {
		base = os.TempDir()
	}
	runs := 2
	if tier == "thorough" {
		runs = 12
	}
	shapes := map[string]bool{}
	c := &Case{ID: fmt.Sprintf("fsdur-%d", seed), Props: []string{"C07"}, NonTrivial: true, Shape: "fsdur"}
	var viols []Violation
	for k := 0; k < runs; k++ {
		dir, err := os.MkdirTemp(base, "verif-fsdur-")
		if err != nil {
			rep.Notes = append(rep.Notes, err.Error())
			continue
		}
		tracePath := filepath.Join(dir, "trace.txt")
		cmd := exec.Command("strace", "-f", "-y", "-s", "64", "-e", fsdurTraceSet,
			"-o", tracePath, os.Args[0], "fsdurwork", dir, fmt.Sprint(seed*100+uint64(k)))
		outb, err := cmd.CombinedOutput()
		if err != nil {
			rep.Divergences = append(rep.Divergences, Divergence{Props: []string{"C07"}, Case: c.ID, Op: "run workload under strace", Impl: fmt.Sprintf("%v: %s", err, clipS(string(outb))), Model: ""})
			os.RemoveAll(dir)
			continue
		}
		for _, line := range strings.Split(string(outb), "\n") {
			if strings.HasPrefix(line, "RESULT create ") {
				if !strings.Contains(line, "zero=true") || !strings.Contains(line, "second-create-fails=true") {
					viols = append(viols, Violation{Property: "C07", What: "Create is not exclusive or not zero-filled to the requested size", Detail: line})
				}
				var name string
				var sz, rd int
				fmt.Sscanf(line, "RESULT create %s size=%d read=%d", &name, &sz, &rd)
				if sz != rd || sz == 0 {
					viols = append(viols, Violation{Property: "C07", What: "Create did not allocate the requested size", Detail: line})
				}
			}
			if strings.HasPrefix(line, "RESULT") && strings.Contains(line, "-err") {
				viols = append(viols, Violation{Property: "C07", What: "storage layer call failed in the traced workload", Detail: line})
			}
		}
		evs, err := parseTrace(tracePath, dir)
		if err != nil {
			rep.Notes = append(rep.Notes, err.Error())
		}
		// windows
		dirSynced := map[string]bool{}
		var cur []sysEv
		label := ""
		for _, e := range evs {
			if e.call != "marker" {
				if label != "" {
					cur = append(cur, e)
				}
				continue
			}
			switch {
			case strings.HasPrefix(e.arg, "vfs-begin "):
				label, cur = e.arg, nil
			case e.arg == "vfs-end":
				if strings.HasPrefix(label, "vfs-begin ") {
					op := strings.TrimPrefix(label, "vfs-begin ")
					c.Ops = append(c.Ops, op)
					seq := canonSeq(cur)
					if strings.HasPrefix(op, "metainit") {
						seq = canonMetaInit(cur)
					}
					c.Impl = append(c.Impl, seq)
					shapes[seq] = true
				}
				label = ""
			case strings.HasPrefix(e.arg, "op-begin "):
				label, cur = e.arg, nil
			case strings.HasPrefix(e.arg, "op-end"):
				if strings.HasPrefix(label, "op-begin ") {
					op := strings.TrimPrefix(label, "op-begin ")
					res := strings.TrimPrefix(e.arg, "op-end ")
					for _, v := range contractViolations(cur, op, res, dirSynced) {
						viols = append(viols, Violation{Property: "C07", What: v, Detail: fmt.Sprintf("during `%s` (%d system calls in the window): %s", op, len(cur), clipS(canonSeq(cur)))})
						if strings.Contains(v, "meta DB") {
							// the stable store lives in that file: a Set acknowledged before the first append has nothing else
							// that makes the directory entry durable
							viols = append(viols, Violation{Property: "C08", What: "the stable store's file is not durably in place when Open returns: " + v, Detail: fmt.Sprintf("during `%s`: %s", op, clipS(canonSeq(cur)))})
						}
					}
					rep.Dist["wal-op:"+strings.Fields(op)[0]]++
					if len(cur) > 0 {
						shapes[strings.Fields(op)[0]+":"+canonSeq(cur)] = true
					}
				}
				label = ""
			}
		}
		rep.Dist["syscalls_parsed"] += len(evs)
		os.RemoveAll(dir)
	}
	viols = append(viols, fsdurFault(base, rep, shapes, c)...)
	vv := viols
	c.Monitor = func(ops, impl []string) []Violation { return vv }
	RunCases("fsdur", []*Case{c}, rep)
	rep.NonTrivial = len(shapes)
	return rep
}

// the meta DB init: bbolt writes and fsyncs the temporary file several times; canonical form keeps the order of
// first occurrences: creation of tmp, writes, fsync, rename, directory fsync — and records any early use of the final name
func canonMetaInit(evs []sysEv) string {
	var parts []string
	seen := map[string]bool{}
	renamed := false
	finalDir := ""
	for _, e := range evs {
		b := filepath.Base(e.path)
		var s string
		switch e.call {
		case "open-creat", "open-creat-excl":
			s = "open-creat " + b
			if b == "wal-meta.db" {
				if renamed {
					continue // bbolt.Open of the now complete file (it always passes O_CREAT)
				}
				s = "open-creat-final-before-rename " + b
			}
		case "pwrite":
			if renamed {
				continue
			}
			s = "pwrite " + b
		case "fsync":
			if renamed {
				continue
			}
			s = "fsync " + b
		case "rename":
			s = fmt.Sprintf("rename %s %s", b, filepath.Base(e.arg))
			renamed = true
			finalDir = filepath.Dir(e.arg)
		case "fsync-dir":
			if !renamed {
				continue
			}
			s = "fsync-dir"
			if finalDir != "" && e.path != finalDir {
				s = "fsync-dir-elsewhere " + b
			}
		default:
			continue
		}
		if seen[s] {
			continue
		}
		seen[s] = true
		parts = append(parts, s)
	}
	return strings.Join(parts, " ; ")
}

func init() { suites["fsdur"] = suiteFsdur }
