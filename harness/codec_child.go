package main

import (
	"bufio"
	"fmt"
	"os"
	"os/exec"
	"runtime"
	"strings"
	"syscall"
	"time"
)

// Damaged payloads are decoded in a child process with a capped address space: a decoder that sizes an allocation from a
// length field in the data can take the process down (runtime: out of memory is not a recoverable panic); that, too, is
// a finding — of the input that caused it — and not the end of the suite. The child also reports how many bytes each
// Decode allocated (C11: bounded by the size of what is being decoded).

func init() {
	extraCommands["codecsub"] = func(args []string) int {
		lim := syscall.Rlimit{Cur: 6 << 30, Max: 6 << 30}
		syscall.Setrlimit(syscall.RLIMIT_AS, &lim)
		in := bufio.NewReaderSize(os.Stdin, 1<<22)
		out := bufio.NewWriter(os.Stdout)
		var ms runtime.MemStats
		for {
			line, err := in.ReadString('\n')
			if err != nil {
				return 0
			}
			bs := unhx(strings.TrimSpace(line))
			runtime.ReadMemStats(&ms)
			before := ms.TotalAlloc
			o, _ := implDec(bs)
			runtime.ReadMemStats(&ms)
			fmt.Fprintf(out, "%d\t%s\n", ms.TotalAlloc-before, o)
			out.Flush()
		}
	}
}

type decChild struct {
	cmd *exec.Cmd
	in  *bufio.Writer
	out *bufio.Reader
}

func (c *decChild) start() error {
	c.cmd = exec.Command(os.Args[0], "codecsub")
	c.cmd.Env = append(os.Environ(), "GOGC=50")
	w, err := c.cmd.StdinPipe()
	if err != nil {
		return err
	}
	r, err := c.cmd.StdoutPipe()
	if err != nil {
		return err
	}
	c.in, c.out = bufio.NewWriter(w), bufio.NewReaderSize(r, 1<<22)
	return c.cmd.Start()
}

func (c *decChild) stop() {
	if c.cmd != nil && c.cmd.Process != nil {
		c.cmd.Process.Kill()
		c.cmd.Wait()
	}
	c.cmd = nil
}

// decode returns the child's answer, the bytes it allocated, and died=true when the child did not survive the input
func (c *decChild) decode(bs []byte) (out string, alloc uint64, died bool) {
	if c.cmd == nil {
		if err := c.start(); err != nil {
			o, _ := implDec(bs)
			return o, 0, false
		}
	}
	fmt.Fprintf(c.in, "%s\n", hx(bs))
	c.in.Flush()
	type res struct {
		line string
		err  error
	}
	ch := make(chan res, 1)
	go func() {
		l, err := c.out.ReadString('\n')
		ch <- res{l, err}
	}()
	select {
	case r := <-ch:
		if r.err != nil {
			c.stop()
			return "died", 0, true
		}
		f := strings.SplitN(strings.TrimRight(r.line, "\n"), "\t", 2)
		if len(f) != 2 {
			return "?", 0, false
		}
		return f[1], atoiU(f[0]), false
	case <-time.After(60 * time.Second):
		c.stop()
		return "hang", 0, true
	}
}
