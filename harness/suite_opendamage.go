package main

import (
	"bytes"
	"fmt"
	"github.com/hashicorp/raft-wal/metadb"
	"os"
	"os/exec"
	"path/filepath"
	"runtime/debug"
	"sort"
	"strings"
	"time"

	"github.com/hashicorp/go-hclog"
	"github.com/hashicorp/raft"
	wal "github.com/hashicorp/raft-wal"
)

// opendamage suite (C11, WAL level, real file system + BoltDB): a directory with several sealed segments and a tail is
// damaged in one way, then opened.
//   must-fail classes (named in the property): a sealed segment the meta store lists is missing, truncated below its
//     32-byte header (every length 0..31), or carries the header of another segment — Open must return an error.
//   any-damage classes: truncation at/after the header, bit flips / splices / length edits / garbage in sealed and tail
//     files, damage to the meta DB file — Open and every read either succeed or return an error: no panic, no hang,
//     and an entry that is returned is the entry that was stored.
//   after every failed Open the directory is restored to its pristine content and opened again in the same process:
//     that Open must proceed (nothing was left locked or open by the failed one).

type odTemplate struct {
	dir     string
	files   map[string][]byte
	sealed  []string // names of sealed segment files, in order
	tail    string
	entries map[uint64]string
	first   uint64
	last    uint64
}

func odOpen(dir string, d time.Duration) (w *wal.WAL, res string) {
	type r struct {
		w   *wal.WAL
		err error
		pan any
	}
	ch := make(chan r, 1)
	go func() {
		defer func() {
			if x := recover(); x != nil {
				ch <- r{pan: x}
			}
		}()
		w, err := wal.Open(dir, wal.WithLogger(hclog.NewNullLogger()), wal.WithSegmentSize(4096))
		ch <- r{w: w, err: err}
	}()
	select {
	case x := <-ch:
		switch {
		case x.pan != nil:
			return nil, fmt.Sprintf("panic: %v", x.pan)
		case x.err != nil:
			return nil, "err: " + x.err.Error()
		}
		return x.w, "ok"
	case <-time.After(d):
		return nil, "blocked"
	}
}

// fdsUnder lists the process's open descriptors that refer to files below dir
func fdsUnder(dir string) []string {
	var out []string
	ents, _ := os.ReadDir("/proc/self/fd")
	for _, e := range ents {
		if t, err := os.Readlink("/proc/self/fd/" + e.Name()); err == nil && strings.HasPrefix(t, dir+"/") {
			out = append(out, filepath.Base(t))
		}
	}
	sort.Strings(out)
	return out
}

// odChild opens dir and reads [first,last] in a child process; died: the child was killed by a fatal signal / runtime fault
func odChild(dir string, first, last uint64) (out string, died bool) {
	cmd := exec.Command(os.Args[0], "odsub", dir, fmt.Sprint(first), fmt.Sprint(last))
	var buf bytes.Buffer
	cmd.Stdout = &buf
	cmd.Stderr = &buf
	done := make(chan error, 1)
	if err := cmd.Start(); err != nil {
		return "setup-err " + err.Error(), false
	}
	go func() { done <- cmd.Wait() }()
	select {
	case <-done:
	case <-time.After(60 * time.Second):
		cmd.Process.Kill()
		<-done
		return "blocked", false
	}
	txt := buf.String()
	if i := strings.Index(txt, "ODSUB "); i >= 0 {
		line := txt[i+6:]
		if j := strings.IndexByte(line, '\n'); j >= 0 {
			line = line[:j]
		}
		return line, false
	}
	if len(txt) > 600 {
		txt = txt[:600]
	}
	return txt, true
}

func init() {
	extraCommands["odsub"] = func(args []string) int {
		w, res := odOpen(args[0], 20*time.Second)
		if w != nil {
			func() {
				defer func() {
					if x := recover(); x != nil {
						res = fmt.Sprintf("panic: %v", x)
					}
				}()
				if li, err := w.LastIndex(); err == nil && li == 0 {
					res = "ok/empty-log"
				}
				for idx := atoiU(args[1]); idx <= atoiU(args[2]); idx++ {
					var l raft.Log
					if err := w.GetLog(idx, &l); err != nil {
						res = "ok/read-err"
						break
					}
				}
				w.Close()
			}()
		}
		fmt.Println("ODSUB " + res)
		return 0
	}
}

func odBuild(base string, r *Rng) (*odTemplate, error) {
	dir, err := os.MkdirTemp(base, "verif-od-tmpl-")
	if err != nil {
		return nil, err
	}
	w, res := odOpen(dir, 20*time.Second)
	if w == nil {
		return nil, fmt.Errorf("template open: %s", res)
	}
	t := &odTemplate{dir: dir, files: map[string][]byte{}, entries: map[uint64]string{}}
	next := uint64(pick(r, []uint64{1, 1, 40}))
	t.first = next
	for k := 0; k < 14; k++ {
		var logs []*raft.Log
		for j := 0; j < 1+r.Intn(3); j++ {
			l := &raft.Log{Index: next, Term: 1 + uint64(k%3), Type: raft.LogType(r.Intn(2)), Data: r.Bytes(200 + r.Intn(500))}
			logs = append(logs, l)
			t.entries[next] = tokKey(logTok(l))
			next++
		}
		if err := w.StoreLogs(logs); err != nil {
			return nil, err
		}
	}
	t.last = next - 1
	w.DeleteRange(^uint64(0), ^uint64(0))
	w.Close()
	ents, _ := os.ReadDir(dir)
	var segs []string
	for _, e := range ents {
		b, _ := os.ReadFile(filepath.Join(dir, e.Name()))
		t.files[e.Name()] = b
		if strings.HasSuffix(e.Name(), ".wal") {
			segs = append(segs, e.Name())
		}
	}
	sort.Strings(segs)
	if len(segs) < 3 {
		return nil, fmt.Errorf("template has only %d segments", len(segs))
	}
	t.sealed, t.tail = segs[:len(segs)-1], segs[len(segs)-1]
	return t, nil
}

func (t *odTemplate) restore(dir string) {
	ents, _ := os.ReadDir(dir)
	for _, e := range ents {
		os.Remove(filepath.Join(dir, e.Name()))
	}
	for n, b := range t.files {
		os.WriteFile(filepath.Join(dir, n), b, 0o644)
	}
}

func suiteOpenDamage(seed uint64, tier string) *Report {
	rep := newReport("opendamage", seed, tier)
	rep.Rule = "a directory with ≥2 sealed segments and a tail (real file system, BoltDB) is damaged in exactly one way and opened: must-fail classes {sealed segment missing; truncated to every length 0..31; header of another sealed segment; whole content of another segment} and any-damage classes {truncation at 32..len, frame-aware and random mutations of sealed and tail files, truncation/garbage/bit flips of the meta DB file}; after Open (success or failure) every index is read; after each failed Open the pristine content is restored and the directory opened again in the same process with a timeout. Non-trivial = Open or a read returned an error; distinct by (class, outcome)."
	r := NewRng(seed ^ 0x0da3)
	base := os.Getenv("VERIF_TMP")
	t, err := odBuild(base, r)
	if err != nil {
		rep.Notes = append(rep.Notes, "template: "+err.Error())
		rep.Divergences = append(rep.Divergences, Divergence{Props: []string{"C11"}, Case: "opendamage", Op: "build template", Impl: err.Error()})
		return rep
	}
	defer os.RemoveAll(t.dir)
	work, _ := os.MkdirTemp(base, "verif-od-work-")
	defer os.RemoveAll(work)
	// the segment records the meta store holds for the template (tie to Model/OpenCheck.lean: what Open's walk over these
	// records answers on the damaged files is computed by the model from the same bytes)
	var segToks []string
	{
		t.restore(work)
		var mdb metadb.BoltMetaDB
		ps, err := mdb.Load(work)
		mdb.Close()
		if err != nil {
			rep.Notes = append(rep.Notes, "template meta: "+err.Error())
		}
		for _, si := range ps.Segments {
			sealed := "0"
			if !si.SealTime.IsZero() {
				sealed = "1"
			}
			segToks = append(segToks, fmt.Sprintf("%d %d %d %d %d %s %d %d", si.ID, si.BaseIndex, si.MinIndex, si.MaxIndex, si.IndexStart, sealed, si.Codec, si.SizeLimit))
		}
	}
	modelLine := func(dir string) string {
		ents, _ := os.ReadDir(dir)
		var fs []string
		for _, e := range ents {
			if !strings.HasSuffix(e.Name(), ".wal") {
				continue
			}
			b, _ := os.ReadFile(filepath.Join(dir, e.Name()))
			h := "-"
			if len(b) > 0 {
				h = hx(b)
			}
			fs = append(fs, e.Name()+":"+h)
		}
		return fmt.Sprintf("open %d %d %s %s", wal.CodecBinaryV1, len(segToks), strings.Join(segToks, " "), strings.Join(fs, " "))
	}
	var mLines, mImpl, mDesc []string
	shapes := map[string]bool{}
	add := func(what, detail string, steps ...string) {
		if len(rep.Violations) < 12 {
			rep.Violations = append(rep.Violations, Violation{Property: "C11", What: what, Detail: detail, Ops: steps})
		}
	}
	type dmg struct {
		class    string
		mustFail bool
		desc     string
		apply    func(dir string)
		child    bool // open in a child process: damage to the BoltDB file itself can fault inside its memory map
	}
	var cases []dmg
	wr := func(dir, name string, b []byte) { os.WriteFile(filepath.Join(dir, name), b, 0o644) }
	for si, name := range t.sealed {
		name := name
		cases = append(cases, dmg{class: "sealed-missing", mustFail: true, desc: "delete sealed segment " + name, apply: func(dir string) { os.Remove(filepath.Join(dir, name)) }})
		for n := 0; n < 32; n++ {
			if si > 0 && n%5 != int(seed%5) && n < 24 {
				continue
			}
			n := n
			cases = append(cases, dmg{class: "sealed-truncated-below-header", mustFail: true, desc: fmt.Sprintf("truncate sealed segment %s to %d bytes", name, n), apply: func(dir string) { wr(dir, name, t.files[name][:n]) }})
		}
		other := t.sealed[(si+1)%len(t.sealed)]
		if other != name {
			cases = append(cases, dmg{class: "sealed-foreign-header", mustFail: true, desc: fmt.Sprintf("sealed segment %s gets the 32-byte header of %s", name, other), apply: func(dir string) {
				b := append([]byte(nil), t.files[name]...)
				copy(b[:32], t.files[other][:32])
				wr(dir, name, b)
			}})
			cases = append(cases, dmg{class: "sealed-foreign-content", mustFail: true, desc: fmt.Sprintf("sealed segment %s gets the whole content of %s", name, other), apply: func(dir string) {
				wr(dir, name, t.files[other])
			}})
		}
	}
	nrand := 40
	if tier == "thorough" {
		nrand = 600
	}
	for k := 0; k < nrand; k++ {
		target := t.tail
		if r.Chance(2, 3) {
			target = pick(r, t.sealed)
		}
		kind := r.Intn(4)
		cr := r.Fork()
		switch kind {
		case 0:
			n := 32 + cr.Intn(len(t.files[target])-31)
			cases = append(cases, dmg{class: "truncated-at-or-after-header", mustFail: false, desc: fmt.Sprintf("truncate %s to %d bytes", target, n), apply: func(dir string) { wr(dir, target, t.files[target][:n]) }})
		case 1, 2:
			cases = append(cases, dmg{class: "mutated-segment", mustFail: false, desc: "mutate " + target, apply: func(dir string) { wr(dir, target, mutateFile(cr, t.files[target])) }})
		default:
			sub := cr.Intn(4)
			cut := cr.Intn(len(t.files["wal-meta.db"]))
			desc := fmt.Sprintf("damage wal-meta.db (kind %d)", sub)
			if sub == 0 {
				desc = fmt.Sprintf("wal-meta.db truncated to %d of %d bytes", cut, len(t.files["wal-meta.db"]))
			}
			cases = append(cases, dmg{class: "mutated-meta-db", desc: desc, child: true, apply: func(dir string) {
				b := append([]byte(nil), t.files["wal-meta.db"]...)
				switch sub {
				case 0:
					b = b[:cut]
				case 1:
					for j := 0; j < 1+cr.Intn(8); j++ {
						b[cr.Intn(len(b))] ^= 1 << uint(cr.Intn(8))
					}
				case 2:
					i := cr.Intn(len(b))
					for j := i; j < len(b) && j < i+64+cr.Intn(4096); j++ {
						b[j] = byte(cr.U64())
					}
				default:
					b = cr.Bytes(cr.Intn(300))
				}
				wr(dir, "wal-meta.db", b)
			}})
		}
	}
	// the meta DB file cut short by whole pages (always exercised: the listed finding F1 lives here)
	for n := 4096; n < len(t.files["wal-meta.db"]); n += 4096 {
		n := n
		cases = append(cases, dmg{class: "meta-db-truncated-pages", desc: fmt.Sprintf("wal-meta.db truncated to %d of %d bytes", n, len(t.files["wal-meta.db"])), child: true,
			apply: func(dir string) { wr(dir, "wal-meta.db", t.files["wal-meta.db"][:n]) }})
	}
	// every page of the meta DB in turn: zeroed, and with one bit flipped in its page-id field (bolt's own consistency
	// assertions fire on these; Open must turn that into an error, not into an empty log or a panic)
	for pg := 0; pg*4096 < len(t.files["wal-meta.db"]); pg++ {
		pg := pg
		cases = append(cases, dmg{class: "meta-db-page-zeroed", desc: fmt.Sprintf("wal-meta.db page %d zeroed", pg), child: true, mustFail: pg >= 2 && false,
			apply: func(dir string) {
				b := append([]byte(nil), t.files["wal-meta.db"]...)
				for j := pg * 4096; j < (pg+1)*4096 && j < len(b); j++ {
					b[j] = 0
				}
				wr(dir, "wal-meta.db", b)
			}})
		cases = append(cases, dmg{class: "meta-db-page-id-flipped", desc: fmt.Sprintf("wal-meta.db page %d: one bit of its page id flipped", pg), child: true,
			apply: func(dir string) {
				b := append([]byte(nil), t.files["wal-meta.db"]...)
				b[pg*4096] ^= 0x40
				wr(dir, "wal-meta.db", b)
			}})
	}
	// the stored metadata RECORD damaged inside an otherwise valid BoltDB file (bolt does not checksum data pages):
	// every occurrence of the JSON record is altered the same way
	rec := []byte(`{"NextSegmentID"`)
	nrec := 6
	if tier == "thorough" {
		nrec = 40
	}
	for k := 0; k < nrec; k++ {
		cr := r.Fork()
		kind := k % 6
		cases = append(cases, dmg{class: "meta-record-damaged", desc: fmt.Sprintf("metadata record inside wal-meta.db altered (kind %d)", kind), apply: func(dir string) {
			b := append([]byte(nil), t.files["wal-meta.db"]...)
			for off := 0; ; {
				i := bytes.Index(b[off:], rec)
				if i < 0 {
					break
				}
				at := off + i
				end := at
				for end < len(b) && b[end] != 0 {
					end++
				}
				switch kind {
				case 0:
					b[at] = '['
				case 1:
					b[at+1+cr.Intn(end-at-1)] ^= 1 << uint(cr.Intn(7))
				case 2:
					for j := at + (end-at)/2; j < end; j++ {
						b[j] = 0
					}
				case 3:
					copy(b[at:], []byte(`{"NextSegmentID":"x"`))
				case 4:
					for j := at; j < end; j++ {
						b[j] = byte('a' + cr.Intn(26))
					}
				default:
					b[end-1] = ','
				}
				off = end
			}
			wr(dir, "wal-meta.db", b)
		}})
	}
	for _, c := range cases {
		t.restore(work)
		c.apply(work)
		rep.Cases++
		rep.Dist["class:"+c.class]++
		steps := []string{fmt.Sprintf("directory with sealed segments %v and tail %s, entries %d..%d", t.sealed, t.tail, t.first, t.last), c.desc, "Open"}
		if c.child {
			out, died := odChild(work, t.first, t.last)
			outcome := "child-" + strings.SplitN(out, ":", 2)[0]
			if died {
				add("Open (or a read) kills the process on a damaged meta DB file: a fault no caller can recover from", out, steps...)
				outcome = "child-died"
			} else if strings.HasPrefix(out, "panic") {
				add("Open panicked on a damaged directory", out, steps...)
			} else if strings.HasPrefix(out, "ok/empty-log") {
				add("a damaged meta DB is opened as an empty log: every entry silently missing instead of an error", out, steps...)
			} else if out == "blocked" {
				add("Open did not return on a damaged directory", out, steps...)
			}
			shapes[c.class+"/"+outcome] = true
			rep.Dist["outcome:"+outcome]++
			continue
		}
		segCase := !strings.Contains(c.class, "meta")
		ml := ""
		if segCase && len(segToks) > 0 {
			ml = modelLine(work) // before Open: recovery rewrites the tail
		}
		gcOld := debug.SetGCPercent(-1) // finalizers of leaked *os.File would otherwise hide what a failed Open left open
		w, res := odOpen(work, 20*time.Second)
		if ml != "" && (res == "ok" || strings.HasPrefix(res, "err")) {
			mLines = append(mLines, ml)
			mImpl = append(mImpl, strings.SplitN(res, ":", 2)[0])
			mDesc = append(mDesc, c.desc)
		}
		if w == nil && strings.HasPrefix(res, "err") {
			if left := fdsUnder(work); len(left) > 0 {
				add("a failed Open leaves files of the directory open (and the meta DB locked): a later Open in the same process blocks until the garbage collector happens to close them",
					fmt.Sprintf("Open returned %q; still open: %v", clipS(res), left), steps...)
			}
		}
		debug.SetGCPercent(gcOld)
		outcome := "open-" + strings.SplitN(res, ":", 2)[0]
		switch {
		case strings.HasPrefix(res, "panic"):
			add("Open panicked on a damaged directory", res, steps...)
		case res == "blocked":
			add("Open did not return on a damaged directory", res, steps...)
		case res == "ok" && c.mustFail:
			first, _ := w.FirstIndex()
			last, _ := w.LastIndex()
			add("Open succeeded although a sealed segment listed in the meta store is missing, cut below its header or foreign",
				fmt.Sprintf("Open returned a WAL reporting FirstIndex=%d LastIndex=%d", first, last), steps...)
		}
		if w != nil {
			// reads: an error or the stored entry, never a panic, never another entry
			bad := ""
			func() {
				defer func() {
					if x := recover(); x != nil {
						bad = fmt.Sprintf("panic: %v", x)
					}
				}()
				for idx := t.first; idx <= t.last; idx++ {
					var l raft.Log
					err := w.GetLog(idx, &l)
					rep.Ops++
					// C11 promises "succeeds or returns an error", not detection of payload damage in sealed segments
					// (frame CRCs are only checked by tail recovery; end-to-end detection is the verifier's job, C17)
					if err == nil && tokKey(logTok(&l)) != t.entries[idx] {
						rep.Dist["read-returned-damaged-payload"]++
					}
					if err != nil && !strings.Contains(outcome, "/read-err") {
						outcome += "/read-err"
					}
				}
			}()
			if strings.HasPrefix(bad, "panic") {
				add("GetLog panicked on a damaged directory", bad, append(steps, "GetLog of every index")...)
			}
			func() {
				defer func() { recover() }()
				w.Close()
			}()
		} else if strings.HasPrefix(res, "err") {
			// nothing may stay locked or open: restore the pristine content and open again, same process
			t.restore(work)
			w2, res2 := odOpen(work, 8*time.Second)
			if w2 == nil {
				what := "after a failed Open, a later Open of the same (repaired) directory in the same process does not proceed"
				add(what, fmt.Sprintf("first Open: %s; second Open on the restored directory: %s", clipS(res), clipS(res2)), append(steps, "restore the pristine files", "Open again in the same process")...)
				if res2 == "blocked" {
					// the leaked lock would block every later case of this run too
					rep.Notes = append(rep.Notes, "stopped after a blocked Open")
					rep.NonTrivial = len(shapes)
					return rep
				}
			} else {
				w2.Close()
			}
			outcome += "/reopen-" + strings.SplitN(res2, ":", 2)[0]
		}
		shapes[c.class+"/"+outcome] = true
		rep.Dist["outcome:"+outcome]++
	}
	// ---- tie to Model/OpenCheck.lean: the model's walk over the meta store's records, on the damaged bytes, succeeds
	// exactly when Open does
	if len(mLines) > 0 {
		outs, err := runDriver("opencheck", mLines)
		if err != nil {
			rep.Divergences = append(rep.Divergences, Divergence{Props: []string{"C11", "C03"}, Case: "opendamage-model", Op: "run driver opencheck", Impl: err.Error()})
		} else {
			for i, o := range outs {
				mc := strings.SplitN(o, " ", 2)[0]
				rep.Dist["model:"+o[:min(len(o), 24)]]++
				if mc != mImpl[i] && len(rep.Divergences) < 5 {
					rep.Divergences = append(rep.Divergences, Divergence{Props: []string{"C11", "C03"}, Case: "opendamage-model", Ops: []string{mDesc[i], clipS(mLines[i])}, At: 0,
						Op: mDesc[i], Impl: mImpl[i], Model: o})
				}
			}
			rep.Dist["model_opens_compared"] = len(outs)
		}
	}
	// ---- C03: a crash during the very first initialisation of a directory leaves wal-meta.db.tmp behind (complete,
	// torn, zero-filled or empty) and no wal-meta.db: Open must initialise the directory and leave a usable log
	{
		fresh, _ := os.MkdirTemp(base, "verif-od-fresh-")
		var freshDB []byte
		if w0, res := odOpen(fresh, 20*time.Second); w0 != nil {
			w0.Close()
			freshDB, _ = os.ReadFile(filepath.Join(fresh, "wal-meta.db"))
		} else {
			rep.Notes = append(rep.Notes, "fresh init: "+res)
		}
		os.RemoveAll(fresh)
		leftovers := []struct {
			name string
			b    []byte
		}{
			{"a complete initialised meta DB (process died between bolt's commit and the rename)", freshDB},
			{"zero-filled to full size (power loss: size durable, content not)", make([]byte, len(freshDB))},
			{"only the first page written", append(append([]byte(nil), freshDB[:min(4096, len(freshDB))]...), make([]byte, max(0, len(freshDB)-4096))...)},
			{"empty file", nil},
			{"garbage", r.Bytes(300)},
		}
		for _, lo := range leftovers {
			if freshDB == nil {
				break
			}
			dir, _ := os.MkdirTemp(base, "verif-od-init-")
			os.WriteFile(filepath.Join(dir, "wal-meta.db.tmp"), lo.b, 0o644)
			rep.Cases++
			rep.Dist["class:leftover-meta-tmp"]++
			steps := []string{"empty directory except for wal-meta.db.tmp: " + lo.name, "Open"}
			addC03 := func(what, detail string, st ...string) {
				rep.Violations = append(rep.Violations, Violation{Property: "C03", What: what, Detail: detail, Ops: st})
			}
			for attempt := 1; attempt <= 2; attempt++ {
				w, res := odOpen(dir, 20*time.Second)
				if w == nil {
					addC03("Open fails on a directory that a crash during the first initialisation can leave behind", fmt.Sprintf("attempt %d: %s", attempt, clipS(res)), steps...)
					if res == "blocked" {
						break
					}
					continue
				}
				l := &raft.Log{Index: uint64(attempt), Term: 1, Data: []byte("after-init-crash")}
				var back raft.Log
				if err := w.StoreLogs([]*raft.Log{l}); err != nil {
					addC03("the log recovered after an interrupted first initialisation refuses an append", err.Error(), append(steps, "StoreLogs")...)
				} else if err := w.GetLog(uint64(attempt), &back); err != nil || string(back.Data) != "after-init-crash" {
					addC03("entry appended after an interrupted first initialisation cannot be read back", fmt.Sprint(err), append(steps, "StoreLogs", "GetLog")...)
				}
				if err := w.SetUint64([]byte("k"), 7); err != nil {
					addC03("the log recovered after an interrupted first initialisation refuses a stable write", err.Error(), append(steps, "SetUint64")...)
				}
				w.Close()
				steps = append(steps, "append, stable write, Close", "Open again")
			}
			shapes["leftover-meta-tmp/"+lo.name] = true
			os.RemoveAll(dir)
		}
	}
	rep.NonTrivial = len(shapes)
	if len(rep.Samples) < 3 {
		rep.Samples = append(rep.Samples, map[string]any{"classes": len(cases), "sealed": t.sealed, "tail": t.tail})
	}
	return rep
}

func init() { suites["opendamage"] = suiteOpenDamage }
