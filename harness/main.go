package main

import (
	"flag"
	"fmt"
	"os"
	"strconv"
)

var suites = map[string]func(seed uint64, tier string) *Report{}

func main() {
	if len(os.Args) < 2 {
		fmt.Fprintln(os.Stderr, "usage: harness facts <repo> <outdir> | suite <name> [-seed N] [-tier quick|thorough] [-out file]")
		os.Exit(2)
	}
	switch os.Args[1] {
	case "facts":
		if len(os.Args) < 4 {
			fmt.Fprintln(os.Stderr, "usage: harness facts <repo> <outdir>")
			os.Exit(2)
		}
		if err := runFacts(os.Args[2], os.Args[3]); err != nil {
			fmt.Fprintln(os.Stderr, "facts:", err)
			os.Exit(1)
		}
	case "suite":
		fs := flag.NewFlagSet("suite", flag.ExitOnError)
		seed := fs.Uint64("seed", envSeed(), "seed")
		tier := fs.String("tier", envOr("VERIF_TIER", "quick"), "tier")
		out := fs.String("out", "-", "report file")
		if len(os.Args) < 3 {
			os.Exit(2)
		}
		name := os.Args[2]
		fs.Parse(os.Args[3:])
		f, ok := suites[name]
		if !ok {
			fmt.Fprintln(os.Stderr, "unknown suite", name)
			os.Exit(2)
		}
		rep := f(*seed, *tier)
		if err := rep.Write(*out); err != nil {
			fmt.Fprintln(os.Stderr, err)
			os.Exit(1)
		}
	default:
		if f, ok := extraCommands[os.Args[1]]; ok {
			os.Exit(f(os.Args[2:]))
		}
		fmt.Fprintln(os.Stderr, "unknown command", os.Args[1])
		os.Exit(2)
	}
}

var extraCommands = map[string]func(args []string) int{}

func envOr(k, d string) string {
	if v := os.Getenv(k); v != "" {
		return v
	}
	return d
}

func envSeed() uint64 {
	v, err := strconv.ParseUint(os.Getenv("VERIF_SEED"), 10, 64)
	if err != nil {
		return 1
	}
	return v
}

func init() {
	suites["codec"] = suiteCodec
}
