package main

import (
	"fmt"
	"math"
	"os"
	"sort"
	"strings"
	"sync"

	"github.com/hashicorp/go-hclog"
	"github.com/hashicorp/raft"
	wal "github.com/hashicorp/raft-wal"
	"github.com/hashicorp/raft-wal/fs"
	"github.com/hashicorp/raft-wal/metrics"
	"github.com/hashicorp/raft-wal/segment"
	"verifharness/simfs"
)

// crash suite (C01, C02, C03, C04, C08, C13): workloads on the real WAL + real segment code over simfs with every
// I/O call recorded; for every crash point (between any two events, including the background rotation and recovery
// itself) and a set of persistence choices, both crash kinds, the image is opened with the real code and the
// property monitors are evaluated against the ghost state (log after all acknowledged calls / after the in-flight
// call as well); then the WAL is used further and crashed again (chains).

// ---- reference log (ghost state) ----

type refLog struct {
	first   uint64
	entries []string // log tokens without time
	stable  map[string]string
	truncs  int // DeleteRange calls that removed something, so far
}

func tokKey(tok string) string { // index:term:type:data:ext (time excluded)
	p := strings.Split(tok, ":")
	return strings.Join(p[:5], ":")
}

func (r *refLog) clone() *refLog {
	c := &refLog{first: r.first, entries: append([]string(nil), r.entries...), stable: map[string]string{}, truncs: r.truncs}
	for k, v := range r.stable {
		c.stable[k] = v
	}
	return c
}

func (r *refLog) firstIndex() uint64 {
	if len(r.entries) == 0 {
		return 0
	}
	return r.first
}
func (r *refLog) lastIndex() uint64 {
	if len(r.entries) == 0 {
		return 0
	}
	return r.first + uint64(len(r.entries)) - 1
}

// apply returns false if the reference log rejects the op
func (r *refLog) apply(op string) bool {
	ws := strings.Fields(op)
	switch ws[0] {
	case "store":
		var idx []uint64
		for _, t := range ws[1:] {
			idx = append(idx, atoiU(strings.SplitN(t, ":", 2)[0]))
			if strings.HasSuffix(t, ":!") {
				return false
			}
		}
		for i := 1; i < len(idx); i++ {
			if idx[i] != idx[i-1]+1 {
				return false
			}
		}
		if len(r.entries) == 0 {
			if idx[0] == 0 {
				return false
			}
			r.first = idx[0]
		} else if idx[0] != r.lastIndex()+1 {
			return false
		}
		for _, t := range ws[1:] {
			r.entries = append(r.entries, tokKey(t))
		}
		return true
	case "del":
		mn, mx := atoiU(ws[1]), atoiU(ws[2])
		if mn > mx || len(r.entries) == 0 || mx < r.firstIndex() || mn > r.lastIndex() {
			return true
		}
		if mn <= r.firstIndex() {
			r.truncs++
			if mx >= r.lastIndex() {
				r.entries = nil
				return true
			}
			k := mx + 1 - r.first
			r.entries = r.entries[k:]
			r.first += k
			return true
		}
		if mx >= r.lastIndex() {
			r.truncs++
			r.entries = r.entries[:mn-r.first]
			return true
		}
		return false
	case "set":
		if ws[2] == "nil" || ws[2] == "-" {
			delete(r.stable, ws[1])
		} else {
			r.stable[ws[1]] = ws[2]
		}
		return true
	case "setu":
		var b [8]byte
		v := atoiU(ws[2])
		for i := 0; i < 8; i++ {
			b[i] = byte(v >> (8 * uint(i)))
		}
		r.stable[ws[1]] = hx(b[:])
		return true
	}
	return true
}

func (r *refLog) equalLog(first, last uint64, entries []string) bool {
	if first != r.firstIndex() || last != r.lastIndex() || len(entries) != len(r.entries) {
		return false
	}
	for i := range entries {
		if entries[i] != r.entries[i] {
			return false
		}
	}
	return true
}

// ---- running a workload with recording ----

type opSpan struct {
	op         string
	start, ack int // event indexes: events[start:ack] happen before the call returns, later ones in the background
	result     string
}

type crashWorkload struct {
	segSize int
	ops     []string
}

func openWalOn(d *simfs.Disk, segSize int, coll metrics.Collector) (*wal.WAL, error) {
	if coll == nil {
		coll = &metrics.NoOpCollector{}
	}
	return wal.Open("d", wal.WithLogger(hclog.NewNullLogger()), wal.WithSegmentSize(segSize), wal.WithMetricsCollector(coll),
		wal.WithSegmentFiler(segment.NewFiler("d", d)), wal.WithMetaStore(&simfs.Meta{D: d}))
}

// runRecorded executes ops on disk d (which may be a crash image) and returns the spans. "open" is the first op.
// rotHold is held while a recorded StoreLogs is in flight (see runRecorded)
var rotHold sync.Mutex

func holdRotationHook(point string) {
	if point == "runRotate:before-lock" {
		rotHold.Lock()
		rotHold.Unlock() //nolint:staticcheck // a gate, not a critical section
	}
}

func runRecorded(d *simfs.Disk, segSize int, ops []string) (spans []opSpan, w *wal.WAL) {
	wal.SetVerifYield(holdRotationHook)
	im := &walImpl{disk: d, segSize: segSize, coll: metrics.NewAtomicCollector(wal.MetricDefinitions)}
	for _, op := range ops {
		sp := opSpan{op: op, start: d.NumEvents()}
		if op == "open" {
			ww, err := openWalOn(d, segSize, im.coll)
			sp.result = walClass(err)
			if err == nil {
				im.w = ww
			}
		} else if im.w == nil {
			sp.result = "err nowal"
		} else {
			ws := strings.Fields(op)
			if ws[0] == "store" {
				var logs []*raft.Log
				for _, t := range ws[1:] {
					logs = append(logs, parseLogTok(t))
				}
				// the background rotation this append may trigger is held at its yield point until the point at which
				// StoreLogs returned has been recorded: on a loaded machine the rotation goroutine could otherwise take the
				// write lock and commit before `ack` is read, and its I/O would be counted as preceding the return
				rotHold.Lock()
				err := im.w.StoreLogs(logs)
				sp.result = walClass(err)
				sp.ack = d.NumEvents()
				rotHold.Unlock()
				im.w.DeleteRange(math.MaxUint64, math.MaxUint64) // wait for the background rotation
				spans = append(spans, sp)
				continue
			}
			sp.result = safeExec(func() string { return im.exec(op) })
		}
		sp.ack = d.NumEvents()
		spans = append(spans, sp)
	}
	return spans, im.w
}

// readAll reads first/last and every entry of an open WAL.
func readAll(w *wal.WAL) (first, last uint64, entries []string, err error) {
	first, err = w.FirstIndex()
	if err != nil {
		return
	}
	last, err = w.LastIndex()
	if err != nil {
		return
	}
	if last == 0 || last < first {
		return
	}
	for i := first; i <= last; i++ {
		var l raft.Log
		if e := w.GetLog(i, &l); e != nil {
			return first, last, entries, fmt.Errorf("GetLog(%d): %v", i, e)
		}
		entries = append(entries, tokKey(logTok(&l)))
	}
	return
}

type crashCtx struct {
	segSize            int
	viols              []Violation
	images             int
	opens              int
	dist               map[string]int
	openWriterDirSyncs bool
}

func (c *crashCtx) add(p, what, detail string, replay []string) {
	if p == "C03" && (strings.Contains(detail, "file exists") || strings.Contains(detail, "already exists")) {
		// an Open (or a call of the recovered WAL) that stumbles over a file it did not expect: creating a segment collided
		// with an existing file — the identity clause of C13
		c.add("C13", "creating a segment collides with a file a crash left behind: "+what, detail, replay)
	}
	// capped per property: a flood of reports under one property must not hide another property's
	n := 0
	for _, v := range c.viols {
		if v.Property == p {
			n++
		}
	}
	if n < 6 {
		c.viols = append(c.viols, Violation{Property: p, What: what, Detail: detail, Ops: replay})
	}
}

// checkImage opens a crash image with the real code and evaluates the monitors. admissible = ghost logs the
// recovered log may equal (after acknowledged calls; after the in-flight call too). Returns the WAL (open) or nil.
func (c *crashCtx) checkImage(d *simfs.Disk, admissible []*refLog, replay []string) (*wal.WAL, *refLog) {
	c.images++
	w, err := openWalOn(d, c.segSize, nil)
	c.opens++
	if err != nil {
		c.add("C03", "Open failed on a directory state a crash can leave behind", err.Error(), replay)
		if len(admissible) > 0 && len(admissible[0].entries) > 0 {
			// C01: "every later Open of the same directory succeeds and GetLog returns that entry"
			c.add("C01", "Open fails on a directory that holds acknowledged entries", err.Error(), replay)
		}
		return nil, nil
	}
	first, last, entries, rerr := readAll(w)
	if rerr != nil {
		c.add("C02", "an index inside [FirstIndex, LastIndex] is not readable after recovery", rerr.Error(), replay)
		if len(admissible[0].entries) > 0 {
			c.add("C01", "the log holding acknowledged entries is not readable after recovery", rerr.Error(), replay)
		}
		if admissible[0].truncs > 0 {
			c.add("C04", "after acknowledged truncations the retained entries are not all readable once a crash has intervened", rerr.Error(), replay)
		}
		c.usabilityProbe(w, d, replay)
		return nil, nil
	}
	var matched *refLog
	for _, a := range admissible {
		if a.equalLog(first, last, entries) {
			matched = a
			break
		}
	}
	if matched == nil {
		a := admissible[0]
		// classify: lost acknowledged data (C01), truncation not atomic/durable (C04), or fabricated/half-applied (C02)
		prop, what := "C02", "recovered log is neither the acknowledged log nor that log with the in-flight call applied in full"
		inflightDel := len(replay) > 0 && strings.HasPrefix(replay[len(replay)-1], "inflight: del")
		if inflightDel {
			prop, what = "C04", "interrupted DeleteRange left the log in neither the old nor the new state"
		} else if last < a.lastIndex() || (a.firstIndex() != 0 && first > a.firstIndex()) || len(entries) < len(a.entries) {
			prop, what = "C01", "acknowledged entries are missing after recovery"
			if a.lastIndex() < last && len(a.entries) < len(entries) {
				prop = "C04"
			}
		}
		c.add(prop, what, fmt.Sprintf("recovered first=%d last=%d n=%d; acknowledged first=%d last=%d n=%d", first, last, len(entries), a.firstIndex(), a.lastIndex(), len(a.entries)), replay)
		c.usabilityProbe(w, d, replay)
		return nil, nil
	}
	// stable keys of acknowledged Sets survive (C08)
	for k, v := range admissible[0].stable {
		got, err := w.Get(unhx(k))
		if err != nil || hx(got) != v {
			if len(admissible) > 1 && admissible[1].stable[k] != v {
				continue
			}
			c.add("C08", "an acknowledged stable Set is lost after the crash", fmt.Sprintf("key %s want %s got %s", k, v, hx(got)), replay)
		}
	}
	// directory = exactly the files of live segments (C13)
	ps := d.MetaState()
	var want []string
	for _, si := range ps.Segments {
		want = append(want, segment.FileName(si))
		if si.ID >= ps.NextSegmentID {
			c.add("C13", "segment ID not below NextSegmentID after recovery", fmt.Sprint(si.ID, ps.NextSegmentID), replay)
		}
	}
	sort.Strings(want)
	if got := strings.Join(d.FileNames(), " "); got != strings.Join(want, " ") {
		c.add("C13", "after Open the directory does not hold exactly the files of the live segments", fmt.Sprintf("files=[%s] live=[%s]", got, strings.Join(want, " ")), replay)
	}
	return w, matched.clone()
}

// usabilityProbe: C03 is independent of what was recovered — whatever log Open came back with, it must accept an
// append at its own LastIndex+1, read it back, accept a stable write, and the directory must open again. Called
// on images whose content check already failed (the content violation is reported under its own property). Closes w.
func (c *crashCtx) usabilityProbe(w *wal.WAL, d *simfs.Disk, replay []string) {
	defer func() {
		if p := recover(); p != nil {
			c.add("C03", "recovered WAL panics on use", fmt.Sprint(p), replay)
		}
	}()
	last, _ := w.LastIndex()
	first, _ := w.FirstIndex()
	next := last + 1
	l := &raft.Log{Index: next, Term: 9, Type: raft.LogCommand, Data: []byte("probe")}
	if err := w.StoreLogs([]*raft.Log{l}); err != nil {
		c.add("C03", "recovered WAL refuses an append at LastIndex+1", fmt.Sprintf("FirstIndex=%d LastIndex=%d: %v", first, last, err), append(replay, "then: store at LastIndex+1"))
		w.Close()
		return
	}
	w.DeleteRange(math.MaxUint64, math.MaxUint64)
	var back raft.Log
	if err := w.GetLog(next, &back); err != nil || string(back.Data) != "probe" {
		c.add("C03", "entry appended after recovery cannot be read back", fmt.Sprint(err), append(replay, "then: store at LastIndex+1"))
	}
	if err := w.Set([]byte("k-probe"), []byte("v")); err != nil {
		c.add("C03", "recovered WAL refuses a stable-store write", err.Error(), replay)
	}
	w.Close()
	w2, err := openWalOn(d, c.segSize, nil)
	c.opens++
	if err != nil {
		c.add("C03", "the directory recovery left behind does not open again", err.Error(), append(replay, "then: store at LastIndex+1, Close, Open"))
		return
	}
	// "further reopen cycles, whose effects are again durable": the single batch written between the two restarts is
	// still there, and so is what preceded it; once more with another single batch
	for round := 0; round < 2; round++ {
		la, _ := w2.LastIndex()
		var b2 raft.Log
		if err := w2.GetLog(next, &b2); la != next || err != nil || string(b2.Data) != "probe" {
			c.add("C03", "an append acknowledged by the recovered WAL is gone after the next clean restart",
				fmt.Sprintf("LastIndex=%d want %d, GetLog: %v", la, next, err), append(replay, "then: store at LastIndex+1, Close, Open (twice)"))
			break
		}
		if last >= first && last > 0 {
			if err := w2.GetLog(last, &b2); err != nil {
				c.add("C03", "what the recovery came back with is unreadable after further use and a clean restart", err.Error(), append(replay, "then: store at LastIndex+1, Close, Open"))
				break
			}
		}
		if round == 1 {
			break
		}
		next++
		if err := w2.StoreLogs([]*raft.Log{{Index: next, Term: 9, Type: raft.LogCommand, Data: []byte("probe")}}); err != nil {
			c.add("C03", "the reopened WAL refuses an append at LastIndex+1", err.Error(), append(replay, "then: store, Close, Open, store"))
			break
		}
		w2.DeleteRange(math.MaxUint64, math.MaxUint64)
		w2.Close()
		w2, err = openWalOn(d, c.segSize, nil)
		c.opens++
		if err != nil {
			c.add("C03", "the directory does not open after a further append and clean restart", err.Error(), append(replay, "then: store, Close, Open, store, Close, Open"))
			return
		}
	}
	w2.Close()
}

// cleanRestart: after recovery and further use, a plain Close/Open (no crash) must bring back exactly the ghost log —
// recovery must not leave metadata that only the in-memory state of the recovering process papers over.
func (c *crashCtx) cleanRestart(d *simfs.Disk, g *refLog, replay []string) {
	replay = append(append([]string(nil), replay...), "then: append at LastIndex+1, Set, Close, Open")
	w, err := openWalOn(d, c.segSize, nil)
	c.opens++
	if err != nil {
		c.add("C03", "Open fails on the clean restart that follows a recovery", err.Error(), replay)
		if len(g.entries) > 0 {
			c.add("C01", "acknowledged entries are gone: Open fails on the clean restart that follows a recovery", err.Error(), replay)
		}
		return
	}
	defer func() {
		w.Close()
		c.truncateAllProbe(d, g, replay)
	}()
	first, last, entries, rerr := readAll(w)
	if rerr != nil {
		c.add("C01", "an acknowledged entry is unreadable after the clean restart that follows a recovery", rerr.Error(), replay)
		c.add("C02", "an index inside [FirstIndex, LastIndex] is not readable after the clean restart that follows a recovery", rerr.Error(), replay)
		return
	}
	if !g.equalLog(first, last, entries) {
		c.add("C01", "the log differs from the acknowledged log after the clean restart that follows a recovery",
			fmt.Sprintf("got first=%d last=%d n=%d; acknowledged first=%d last=%d n=%d", first, last, len(entries), g.firstIndex(), g.lastIndex(), len(g.entries)), replay)
	}
}

// truncateAllProbe: the recovered log must also accept the other kind of write call — on a copy of the directory, delete
// everything (what raft does after installing a snapshot), append again, restart
func (c *crashCtx) truncateAllProbe(d *simfs.Disk, g *refLog, replay []string) {
	if len(g.entries) == 0 || c.images%3 != 0 {
		return
	}
	c.dist["truncate-all-probes"]++
	dd := d.Clone()
	replay = append(append([]string(nil), replay...), "then (on a copy): Open, DeleteRange(first,last), StoreLogs(last+1), Close, Open")
	w, err := openWalOn(dd, c.segSize, nil)
	c.opens++
	if err != nil {
		return // reported by the caller's own Open
	}
	defer func() {
		if p := recover(); p != nil {
			c.add("C03", "recovered WAL panics on use", fmt.Sprint(p), replay)
		}
	}()
	first, last := g.firstIndex(), g.lastIndex()
	if err := w.DeleteRange(first, last); err != nil {
		c.add("C03", "recovered WAL refuses to delete the whole log", err.Error(), replay)
		c.add("C04", "DeleteRange of the whole log fails on a recovered WAL", err.Error(), replay)
		w.Close()
		return
	}
	l := &raft.Log{Index: last + 1, Term: 12, Data: []byte("after-truncate-all")}
	if err := w.StoreLogs([]*raft.Log{l}); err != nil {
		c.add("C03", "recovered WAL refuses an append after deleting the whole log", err.Error(), replay)
	}
	w.DeleteRange(math.MaxUint64, math.MaxUint64)
	w.Close()
	w2, err := openWalOn(dd, c.segSize, nil)
	c.opens++
	if err != nil {
		c.add("C03", "Open fails after the recovered WAL deleted its whole log and appended again", err.Error(), replay)
		return
	}
	if f2, _ := w2.FirstIndex(); f2 != last+1 {
		c.add("C04", "after deleting the whole log and appending, a restart does not come back with exactly the new entry", fmt.Sprintf("FirstIndex=%d want %d", f2, last+1), replay)
	}
	w2.Close()
}

// continuation: the recovered WAL must be fully usable (C03) and its new effects durable
func (c *crashCtx) continuation(w *wal.WAL, d *simfs.Disk, g *refLog, r *Rng, replay []string) bool {
	next := g.lastIndex() + 1
	if len(g.entries) == 0 {
		next = pick(r, []uint64{1, 5, g.first + 3})
		if next == 0 {
			next = 1
		}
	}
	l := &raft.Log{Index: next, Term: 9, Type: raft.LogCommand, Data: []byte(fmt.Sprintf("after-crash-%d", next))}
	tok := logTok(l)
	if err := w.StoreLogs([]*raft.Log{l}); err != nil {
		c.add("C03", "recovered WAL refuses an append at LastIndex+1", err.Error(), append(replay, "then: store "+tok))
		return false
	}
	w.DeleteRange(math.MaxUint64, math.MaxUint64)
	g.apply("store " + tok)
	var back raft.Log
	if err := w.GetLog(next, &back); err != nil || tokKey(logTok(&back)) != tokKey(tok) {
		c.add("C03", "entry appended after recovery cannot be read back", fmt.Sprint(err), append(replay, "then: store "+tok))
		return false
	}
	if err := w.Set([]byte("k-after"), []byte("v")); err != nil {
		c.add("C03", "recovered WAL refuses a stable-store write", err.Error(), replay)
		return false
	}
	g.stable[hx([]byte("k-after"))] = hx([]byte("v"))
	return true
}

func parseSpansGhost(spans []opSpan) (ackedAfter []*refLog) {
	g := &refLog{stable: map[string]string{}}
	for _, sp := range spans {
		if sp.result == "ok" || strings.HasPrefix(sp.result, "ok ") {
			g.apply(sp.op)
		}
		ackedAfter = append(ackedAfter, g.clone())
	}
	return
}

// admissibleAt: ghost logs admissible for a crash at event index i of a run with the given spans
func admissibleAt(spans []opSpan, acked []*refLog, base *refLog, i int) (adm []*refLog, inflight string) {
	cur := base
	for k, sp := range spans {
		if i >= sp.ack {
			cur = acked[k]
			continue
		}
		if i >= sp.start {
			// crash inside this call (before it returned): it may or may not have taken effect
			b := cur.clone()
			if b.apply(sp.op) {
				return []*refLog{cur, b}, sp.op
			}
			return []*refLog{cur}, sp.op
		}
		break
	}
	return []*refLog{cur}, ""
}

type choiceGen struct {
	name string
	mk   func(t *simfs.Tracker, r *Rng) simfs.Choice
}

var powerChoices = []choiceGen{
	{"all-old", func(t *simfs.Tracker, r *Rng) simfs.Choice {
		return simfs.Choice{KeepEntry: func(string) bool { return false }, KeepChunk: func(string, int, int64) bool { return false }}
	}},
	{"all-new", func(t *simfs.Tracker, r *Rng) simfs.Choice {
		return simfs.Choice{KeepEntry: func(string) bool { return true }, KeepChunk: func(string, int, int64) bool { return true }}
	}},
	{"files-present-content-old", func(t *simfs.Tracker, r *Rng) simfs.Choice {
		return simfs.Choice{KeepEntry: func(string) bool { return true }, KeepChunk: func(string, int, int64) bool { return false }}
	}},
	{"content-new-entries-lost", func(t *simfs.Tracker, r *Rng) simfs.Choice {
		return simfs.Choice{KeepEntry: func(string) bool { return false }, KeepChunk: func(string, int, int64) bool { return true }}
	}},
	{"all-but-first-chunk", func(t *simfs.Tracker, r *Rng) simfs.Choice {
		seen := map[string]bool{}
		return simfs.Choice{KeepEntry: func(string) bool { return true }, KeepChunk: func(n string, w int, c int64) bool {
			k := fmt.Sprint(n, w)
			if !seen[k] {
				seen[k] = true
				return false
			}
			return true
		}}
	}},
	{"all-but-last-chunk", func(t *simfs.Tracker, r *Rng) simfs.Choice {
		pc, names := t.PendingChunks()
		lastOf := map[string]int64{}
		for _, p := range pc {
			lastOf[fmt.Sprint(names[p[0]], p[1])] = p[2]
		}
		return simfs.Choice{KeepEntry: func(string) bool { return true }, KeepChunk: func(n string, w int, c int64) bool {
			return lastOf[fmt.Sprint(n, w)] != c
		}}
	}},
	{"only-last-chunk", func(t *simfs.Tracker, r *Rng) simfs.Choice {
		pc, names := t.PendingChunks()
		lastOf := map[string]int64{}
		for _, p := range pc {
			lastOf[fmt.Sprint(names[p[0]], p[1])] = p[2]
		}
		return simfs.Choice{KeepEntry: func(string) bool { return true }, KeepChunk: func(n string, w int, c int64) bool {
			return lastOf[fmt.Sprint(n, w)] == c
		}}
	}},
	{"random", func(t *simfs.Tracker, r *Rng) simfs.Choice {
		seed := r.U64()
		return simfs.Choice{KeepEntry: func(n string) bool { return (seed>>uint(len(n)%13))&1 == 1 },
			KeepChunk: func(n string, w int, c int64) bool {
				x := seed ^ uint64(c)*0x9E3779B97F4A7C15 ^ uint64(w)<<32
				x ^= x >> 29
				x *= 0xBF58476D1CE4E5B9
				return (x>>17)&1 == 1
			}}
	}},
}

// exploreCrashes: run `ops` on disk image `start` (ghost `base`), then for every crash point and choice check the
// image; recurse to `depth` with a continuation workload.
func (c *crashCtx) exploreCrashes(start *simfs.Disk, base *refLog, ops []string, r *Rng, depth int, replay []string, allPoints bool) {
	d := start.Clone()
	d.Record = true
	spans, w := runRecorded(d, c.segSize, ops)
	if w != nil {
		w.Close()
	}
	for _, sp := range spans {
		if sp.op == "open" && sp.result != "ok" {
			c.add("C03", "Open failed on a directory state a crash can leave behind", sp.result, replay)
			return
		}
	}
	events := append([]simfs.Event(nil), d.Events...)
	acked := parseSpansGhost(spans)
	for k := range acked { // ghost of the run starts from base
		_ = k
	}
	// rebuild ghost chain starting from base
	g := base.clone()
	ackedB := make([]*refLog, len(spans))
	for k, sp := range spans {
		if sp.result == "ok" || strings.HasPrefix(sp.result, "ok ") {
			g.apply(sp.op)
		}
		ackedB[k] = g.clone()
	}
	tr := simfs.NewTracker(start)
	tr.OpenWriterDirSyncs = c.openWriterDirSyncs
	points := len(events)
	for i := 0; i <= points; i++ {
		if i > 0 {
			tr.Apply(events[i-1])
		}
		if !allPoints && i != points && r.Intn(4) != 0 {
			continue
		}
		adm, inflight := admissibleAt(spans, ackedB, base, i)
		rp := append(append([]string(nil), replay...), fmt.Sprintf("run: %s", strings.Join(ops, " ; ")), fmt.Sprintf("crash before event %d of %d (%s)", i, points, evDesc(events, i)))
		if inflight != "" {
			rp = append(rp, "inflight: "+clipS(inflight))
		}
		// process crash
		{
			img := tr.ProcessCrash()
			c.dist["process-crash"]++
			img0 := img.Clone() // the image as the crash left it: recovery and the continuation below write to `img`
			if w2, g2 := c.checkImage(img, adm, append(rp, "kind: process crash")); w2 != nil {
				gPre := g2.clone()
				c.truncateAllProbe(img, g2, append(rp, "kind: process crash"))
				ok := c.continuation(w2, img, g2, r, append(rp, "kind: process crash"))
				w2.Close()
				if ok {
					c.cleanRestart(img, g2, append(rp, "kind: process crash"))
				}
				// a process crash that left un-fsynced bytes or directory entries behind is always followed up: the
				// restarted process must make what it recovered durable before building on it (a later power loss
				// would otherwise take acknowledged entries with it)
				// … and so is a process crash inside the background rotation that follows an acknowledged sealing append (the
				// recovery then has to complete the rotation: a meta commit and a file creation of its own, each of which
				// can be cut again — every point of that recovery is visited)
				inRot := false
				for k, sp := range spans {
					end := points
					if k+1 < len(spans) {
						end = spans[k+1].start
					}
					if strings.HasPrefix(sp.op, "store") && sp.ack <= i && i < end && sp.ack < end {
						inRot = true
					}
				}
				if ok && depth > 1 && (r.Intn(3) == 0 || hasPending(tr) || len(tr.NonDurableEntries()) > 0) {
					c.exploreCrashes(img, g2, []string{"open", fmt.Sprintf("store %s", logTok(&raft.Log{Index: g2.lastIndex() + 1, Term: 10, Data: []byte("chain")}))}, r, depth-1, append(rp, "kind: process crash", "continued"), hasPending(tr))
				}
				if depth > 1 && inRot {
					// from the image as the crash left it: the Open that has to complete the rotation is itself cut at
					// every one of its I/O boundaries
					c.dist["recovery-of-interrupted-rotation-cut"]++
					c.exploreCrashes(img0, gPre, []string{"open", fmt.Sprintf("store %s", logTok(&raft.Log{Index: gPre.lastIndex() + 1, Term: 11, Data: []byte("chain2")}))}, r, depth-1, append(rp, "kind: process crash", "restarted from that image"), true)
				}
			}
		}
		// power loss
		for _, ch := range powerChoices {
			if ch.name == "random" || len(tr.NonDurableEntries()) > 0 || hasPending(tr) || ch.name == "all-old" {
				img := tr.PowerLoss(ch.mk(tr, r))
				c.dist["power-loss:"+ch.name]++
				rp2 := append(rp, "kind: power loss, choice "+ch.name)
				if w2, g2 := c.checkImage(img, adm, rp2); w2 != nil {
					c.truncateAllProbe(img, g2, rp2)
					ok := c.continuation(w2, img, g2, r, rp2)
					w2.Close()
					if ok {
						c.cleanRestart(img, g2, rp2)
					}
					if ok && depth > 1 && r.Intn(6) == 0 {
						c.exploreCrashes(img, g2, []string{"open", fmt.Sprintf("store %s", logTok(&raft.Log{Index: g2.lastIndex() + 1, Term: 10, Data: []byte("chain")})),
							fmt.Sprintf("del %d %d", g2.firstIndex(), g2.firstIndex())}, r, depth-1, append(rp2, "continued"), false)
					}
				}
			}
		}
	}
}

func hasPending(t *simfs.Tracker) bool { pc, _ := t.PendingChunks(); return len(pc) > 0 }

func evDesc(evs []simfs.Event, i int) string {
	if i >= len(evs) {
		return "end"
	}
	e := evs[i]
	switch e.Kind {
	case "write":
		return fmt.Sprintf("write %s off=%d len=%d", e.Name, e.Off, len(e.Data))
	case "commit":
		return fmt.Sprintf("commit-meta next=%d segs=%d", e.Meta.NextSegmentID, len(e.Meta.Segments))
	default:
		return e.Kind + " " + e.Name
	}
}

func probeOpenWriterDirSyncs() bool {
	dir, err := os.MkdirTemp(os.Getenv("VERIF_TMP"), "verif-fsprobe-")
	if err != nil {
		return false
	}
	defer os.RemoveAll(dir)
	v := fs.New()
	f, err := v.Create(dir, "x", 16)
	if err != nil {
		return false
	}
	f.Close()
	wf, err := v.OpenWriter(dir, "x")
	if err != nil {
		return false
	}
	defer wf.Close()
	_, wrapped := wf.(*fs.File)
	return wrapped
}

func genCrashWorkload(r *Rng) (int, []string) {
	segSize := pick(r, []int{1, 150, 300, 600, 4096})
	g := &walGen{r: r, impl: nil}
	_ = g
	var ops []string
	ops = append(ops, "open")
	next := pick(r, []uint64{1, 1, 7, 1 << 40})
	first, last := uint64(0), uint64(0)
	mk := func(i uint64) string {
		l := &raft.Log{Index: i, Term: uint64(1 + r.Intn(3)), Type: raft.LogType(r.Intn(3)), Data: r.Bytes(r.Intn(40))}
		if r.Chance(1, 5) {
			l.Data = r.Bytes(100 + r.Intn(150))
		}
		return logTok(l)
	}
	n := 3 + r.Intn(6)
	for k := 0; k < n; k++ {
		switch x := r.Intn(10); {
		case x < 5 || last == 0:
			cnt := 1 + r.Intn(3)
			var toks []string
			for j := 0; j < cnt; j++ {
				toks = append(toks, mk(next+uint64(j)))
			}
			ops = append(ops, "store "+strings.Join(toks, " "))
			if last == 0 {
				first = next
			}
			last = next + uint64(cnt) - 1
			next = last + 1
		case x < 7 && last > first: // head truncation
			upto := first + uint64(r.Intn(int(last-first)))
			ops = append(ops, fmt.Sprintf("del %d %d", uint64(r.Intn(int(first)+1)), upto))
			first = upto + 1
		case x < 9 && last > first: // tail truncation
			from := first + 1 + uint64(r.Intn(int(last-first)))
			ops = append(ops, fmt.Sprintf("del %d %d", from, last+uint64(r.Intn(3))))
			last = from - 1
			next = from
		case x == 9 && last > 0 && r.Chance(1, 2): // delete everything
			ops = append(ops, fmt.Sprintf("del %d %d", first, last))
			first, last = 0, 0
			if r.Bool() {
				next = pick(r, []uint64{1, next, next + 5})
			}
		default:
			ops = append(ops, fmt.Sprintf("setu %s %d", hx([]byte("CurrentTerm")), r.Intn(100)))
		}
	}
	return segSize, ops
}

func suiteCrash(seed uint64, tier string) *Report {
	rep := newReport("crash", seed, tier)
	rep.Rule = "workloads of appends (filling segments), head/tail/whole-log truncations, base-index resets and stable sets on the real WAL + segment code over simfs; for every crash point between two recorded I/O events (background rotation and Open's own I/O included) a process-crash image and power-loss images under the choices {all-old, all-new, files present/content old, content new/entries lost, all but the first chunk, all but the last chunk, only the last chunk, random subsets} of un-fsynced 8-byte chunks and non-durable directory entries; each image is opened with the real code, compared with the ghost log (acknowledged calls; plus the in-flight call), used further (append at LastIndex+1, read back, stable set) and crashed again (chains of depth 2–3, recovery's own I/O included). A case is one workload; non-trivial images = those with pending chunks or non-durable entries."
	r := NewRng(seed ^ 0xc4a5)
	nw, depth := 14, 2
	if tier == "thorough" {
		depth = 3
	}
	simfs.OpenWriterDirSyncs = probeOpenWriterDirSyncs()
	nw, depth = nwFor(tier), depth
	type res struct {
		ctx     *crashCtx
		segSize int
		ops     []string
		cm      []*cmCase
		cmStats map[string]int
	}
	results := make([]res, nw)
	forks := make([]*Rng, nw)
	for k := range forks {
		forks[k] = r.Fork()
	}
	sem := make(chan struct{}, 16)
	var wg sync.WaitGroup
	for k := 0; k < nw; k++ {
		wg.Add(1)
		sem <- struct{}{}
		go func(k int) {
			defer wg.Done()
			defer func() { <-sem }()
			cr := forks[k]
			segSize, ops := genCrashWorkload(cr)
			ctx := &crashCtx{dist: map[string]int{}, openWriterDirSyncs: simfs.OpenWriterDirSyncs, segSize: segSize}
			ctx.exploreCrashes(simfs.New(), &refLog{stable: map[string]string{}}, ops, cr, depth, nil, true)
			// correspondence with Model/Crash.lean on the same workload
			var cm []*cmCase
			st := map[string]int{}
			crashModelTie(simfs.New(), nil, segSize, ops, cr.Fork(), 2, nil, simfs.OpenWriterDirSyncs, &cm, st)
			results[k] = res{ctx, segSize, ops, cm, st}
		}(k)
	}
	wg.Wait()
	rep.Dist["open_writer_dirsyncs"] = map[bool]int{false: 0, true: 1}[simfs.OpenWriterDirSyncs]
	shapes := map[string]bool{}
	images := 0
	perProp := map[string]int{}
	var allCM []*cmCase
	for _, rs := range results {
		allCM = append(allCM, rs.cm...)
		for k, v := range rs.cmStats {
			rep.Dist["crash_model:"+k] += v
		}
	}
	runCrashModelCases(allCM, rep)
	for _, rs := range results {
		rep.Cases++
		rep.Ops += len(rs.ops)
		var kinds []string
		for _, o := range rs.ops {
			kinds = append(kinds, strings.Fields(o)[0])
		}
		shapes[fmt.Sprint(rs.segSize, kinds)] = true
		if len(rep.Samples) < 4 {
			rep.Samples = append(rep.Samples, map[string]any{"segment_size": rs.segSize, "ops": clip(rs.ops, 10)})
		}
		for k, v := range rs.ctx.dist {
			rep.Dist[k] += v
		}
		images += rs.ctx.images
		for _, v := range rs.ctx.viols {
			if perProp[v.Property] < 8 {
				perProp[v.Property]++
				rep.Violations = append(rep.Violations, v)
			} else {
				rep.Dist["violations_not_listed"]++
			}
		}
	}
	rep.NonTrivial = len(shapes)
	rep.Dist["images_checked"] = images
	return rep
}

func nwFor(tier string) int {
	if tier == "thorough" {
		return 400
	}
	return 48
}

func init() { suites["crash"] = suiteCrash }
