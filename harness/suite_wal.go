package main

import (
	"bytes"
	"errors"
	"fmt"
	"math"
	"os"
	"path/filepath"
	"sort"
	"strconv"
	"strings"
	"sync"
	"sync/atomic"
	"time"

	"github.com/hashicorp/go-hclog"
	"github.com/hashicorp/raft"
	wal "github.com/hashicorp/raft-wal"
	"github.com/hashicorp/raft-wal/fs"
	"github.com/hashicorp/raft-wal/metadb"
	"github.com/hashicorp/raft-wal/metrics"
	"github.com/hashicorp/raft-wal/segment"
	"github.com/hashicorp/raft-wal/types"
	"verifharness/simfs"
)

// wal suite: the real WAL (real segment package) over simfs — or over the real
// filesystem and BoltDB — driven by operation sequences, compared with
// Model.Wal (correspondence) and with Spec.Log (the property of C05), plus
// monitors for C13 (directory contents, segment IDs) and C20 (counters).

type idCodec struct {
	wal.BinaryCodec
	id uint64
}

func (c *idCodec) ID() uint64 { return c.id }

func walClass(err error) string {
	switch {
	case err == nil:
		return "ok"
	case errors.Is(err, wal.ErrNotFound):
		return "err notfound"
	case errors.Is(err, wal.ErrClosed):
		return "err closed"
	case errors.Is(err, wal.ErrSealed):
		return "err sealed"
	case errors.Is(err, wal.ErrCorrupt):
		return "err corrupt"
	default:
		return "err other"
	}
}

type walImpl struct {
	disk    *simfs.Disk
	realDir string
	w       *wal.WAL
	coll    *metrics.AtomicCollector
	segSize int
	gate    rotGate
	dead    bool // a call never returned: the WAL object is abandoned for the rest of the case
	shut    bool // the WAL has been closed (close, or a reopen whose Open failed) and not opened again
}

// unsettledOnDisk: the WAL was shut down while the rotation queued by a sealing append had not run — on disk the tail
// file is sealed, the meta store still has it as the unsealed tail. The sequential model rotates inside the append; the
// two agree again once the next Open has completed the rotation. Until then the directory is not compared.
func (s *walImpl) unsettledOnDisk() bool {
	var ps types.PersistentState
	var filer *segment.Filer
	if s.disk != nil {
		ps = s.disk.MetaState()
		filer = segment.NewFiler("d", s.disk)
	} else {
		db := &metadb.BoltMetaDB{}
		st, err := db.Load(s.realDir)
		db.Close()
		if err != nil {
			return false
		}
		ps = st
		filer = segment.NewFiler(s.realDir, fs.New())
	}
	if len(ps.Segments) == 0 {
		return false
	}
	si := ps.Segments[len(ps.Segments)-1]
	if !si.SealTime.IsZero() {
		return false
	}
	sw, err := filer.RecoverTail(si)
	if err != nil {
		return false
	}
	defer sw.Close()
	sealed, _, err := sw.Sealed()
	return err == nil && sealed
}

func (s *walImpl) cleanup() {
	// open the gate and take the hook out: rotation goroutines of later cases must not meet this case's gate
	s.gate.release()
	wal.SetVerifYield(nil)
	if s.w != nil {
		s.w.Close()
	}
	if s.realDir != "" {
		os.RemoveAll(s.realDir)
	}
}

func (s *walImpl) open(codecID uint64) error {
	var codec wal.Codec // nil interface: WAL applies its default BinaryCodec
	if codecID != wal.CodecBinaryV1 {
		codec = &idCodec{id: codecID}
	}
	log := hclog.NewNullLogger()
	var w *wal.WAL
	var err error
	if s.realDir != "" {
		w, err = wal.Open(s.realDir, wal.WithCodec(codec), wal.WithLogger(log), wal.WithSegmentSize(s.segSize), wal.WithMetricsCollector(s.coll))
	} else {
		w, err = wal.Open("d", wal.WithCodec(codec), wal.WithLogger(log), wal.WithSegmentSize(s.segSize), wal.WithMetricsCollector(s.coll),
			wal.WithSegmentFiler(segment.NewFiler("d", s.disk)), wal.WithMetaStore(&simfs.Meta{D: s.disk}))
	}
	if err != nil {
		return err
	}
	s.w = w
	return nil
}

func fmtLog(l *raft.Log) string {
	return fmt.Sprintf("ok %d %d %d %s %s %s", l.Index, l.Term, uint8(l.Type), hx(l.Data), hx(l.Extensions), showGoTime(l.AppendedAt))
}

func parseLogTok(tok string) *raft.Log {
	p := strings.Split(tok, ":")
	l := &raft.Log{Index: atoiU(p[0]), Term: atoiU(p[1]), Type: raft.LogType(atoiU(p[2])), Data: unhx(p[3]), Extensions: unhx(p[4])}
	if p[5] == "!" {
		l.AppendedAt = time.Unix(0, 0).In(time.FixedZone("bad", -90))
	} else {
		var t time.Time
		if err := t.UnmarshalBinary(unhx(p[5])); err == nil {
			l.AppendedAt = t
		}
	}
	return l
}

func logTok(l *raft.Log) string {
	tb, err := l.AppendedAt.MarshalBinary()
	th := "!"
	if err == nil {
		th = hx(tb)
	}
	return fmt.Sprintf("%d:%d:%d:%s:%s:%s", l.Index, l.Term, uint8(l.Type), hx(l.Data), hx(l.Extensions), th)
}

// rotGate: "late" makes the background rotation of the next append late — the rotation goroutine is parked before it
// takes the write lock while the call after the append runs (a DeleteRange, a Close, another append: callers do not
// wait for the rotation); it is let go as soon as that call is seen waiting for it, or has returned.
// timedExec runs one op of the real WAL with a deadline: a call that never returns (a writer waiting for a rotation that
// will never happen, …) is an answer — "blocked" — not a hang of the suite; the WAL object is abandoned afterwards.
func (s *walImpl) timedExec(op string) string {
	if s.dead {
		if strings.HasPrefix(op, "case") {
			s.dead = false
		} else {
			return "err dead-after-blocked-call"
		}
	}
	done := make(chan string, 1)
	go func() { done <- safeExec(func() string { return s.exec(op) }) }()
	select {
	case o := <-done:
		return o
	case <-time.After(blockDeadline()):
		atomic.AddInt32(&blockedCalls, 1)
		s.dead = true
		s.gate.release()
		s.w = nil
		return "blocked"
	}
}

var blockedCalls int32

// blockDeadline: generous for the first few calls that never return, short once the run has established that calls block
// (a broken tree must not stretch the run to hours)
func blockDeadline() time.Duration {
	if atomic.LoadInt32(&blockedCalls) >= 3 {
		return 1500 * time.Millisecond
	}
	return 10 * time.Second
}

type rotGate struct {
	mu       sync.Mutex
	armed    bool            // "late" seen: the next append's rotation is to be held
	holdNext bool            // the append has been issued: hold the next rotation goroutine that shows up
	holding  bool            // a held rotation may be pending: the next call races with it
	parked   []chan struct{} // one per held rotation goroutine; closed to let it go
}

func (g *rotGate) letGoLocked() {
	for _, ch := range g.parked {
		close(ch)
	}
	g.parked = nil
}

func (g *rotGate) hook(point string) {
	g.mu.Lock()
	switch point {
	case "runRotate:before-lock":
		if g.holdNext {
			// every rotation goroutine that shows up while the gate is shut is held — also one of an earlier, closed WAL
			// that is only now on its way out (it must not use up the hold meant for this append's rotation)
			ch := make(chan struct{})
			g.parked = append(g.parked, ch)
			g.mu.Unlock()
			<-ch
			return
		}
	case "awaitRotation:before-receive":
		// somebody waits for the rotation: let it run — also when its goroutine has not reached the gate yet
		g.holdNext = false
		g.letGoLocked()
	}
	g.mu.Unlock()
}

func (g *rotGate) release() {
	g.mu.Lock()
	g.letGoLocked()
	g.holding, g.holdNext = false, false
	g.mu.Unlock()
}

func (s *walImpl) exec(op string) (out string) {
	defer func() {
		if r := recover(); r != nil {
			out = "panic"
		}
	}()
	ws := strings.Fields(op)
	if ws[0] == "case" {
		s.gate.release()
		return "case"
	}
	if ws[0] == "late" {
		if s.w == nil {
			return "err nowal"
		}
		s.gate.mu.Lock()
		s.gate.armed = true
		s.gate.mu.Unlock()
		wal.SetVerifYield(s.gate.hook)
		return "ok"
	}
	if s.gate.holding && (ws[0] == "files" || ws[0] == "meta" || ws[0] == "fmtcheck") {
		// observations of the directory at rest: the held rotation is let go and waited for first
		s.gate.release()
		if s.w != nil {
			s.w.DeleteRange(math.MaxUint64, math.MaxUint64)
		}
	}
	if s.gate.holding && ws[0] != "store" {
		// the call that races with the held rotation; afterwards the rotation is let go and waited for
		defer func() {
			s.gate.release()
			if s.w != nil {
				s.w.DeleteRange(math.MaxUint64, math.MaxUint64)
			}
		}()
	}
	if ws[0] == "open" {
		s.segSize = int(atoiU(ws[1]))
		s.coll = metrics.NewAtomicCollector(wal.MetricDefinitions)
		s.shut = false
		if err := s.open(atoiU(ws[2])); err != nil {
			return walClass(err)
		}
		return "ok"
	}
	if s.w == nil {
		return "err nowal"
	}
	if s.shut && (ws[0] == "files" || ws[0] == "meta" || ws[0] == "fmtcheck") && s.unsettledOnDisk() {
		return "unsettled"
	}
	switch ws[0] {
	case "store":
		var logs []*raft.Log
		for _, t := range ws[1:] {
			logs = append(logs, parseLogTok(t))
		}
		s.gate.mu.Lock()
		late := s.gate.armed
		if late {
			s.gate.armed, s.gate.holding, s.gate.holdNext = false, true, true
		}
		s.gate.mu.Unlock()
		err := s.w.StoreLogs(logs)
		if late {
			return walClass(err) // no barrier: the next call meets the queued rotation
		}
		s.gate.release()
		// barrier: wait for a background rotation triggered by this append
		s.w.DeleteRange(math.MaxUint64, math.MaxUint64)
		return walClass(err)
	case "del":
		// answer = error class plus how many entries the call really removed and from which end,
		// derived from FirstIndex/LastIndex before and after (API observables only)
		f0, _ := s.w.FirstIndex()
		l0, _ := s.w.LastIndex()
		mn, mx := atoiU(ws[1]), atoiU(ws[2])
		err := s.w.DeleteRange(mn, mx)
		if err != nil {
			return walClass(err)
		}
		f1, _ := s.w.FirstIndex()
		l1, _ := s.w.LastIndex()
		return delAnswer(f0, l0, f1, l1, mn)
	case "get":
		var l raft.Log
		if err := s.w.GetLog(atoiU(ws[1]), &l); err != nil {
			return walClass(err)
		}
		return fmtLog(&l)
	case "first":
		v, err := s.w.FirstIndex()
		if err != nil {
			return walClass(err)
		}
		return fmt.Sprint(v)
	case "last":
		v, err := s.w.LastIndex()
		if err != nil {
			return walClass(err)
		}
		return fmt.Sprint(v)
	case "barrier":
		return walClass(s.w.DeleteRange(math.MaxUint64, math.MaxUint64))
	case "close":
		s.shut = true
		return walClass(s.w.Close())
	case "reopen":
		s.w.Close()
		s.shut = true
		if err := s.open(atoiU(ws[1])); err != nil {
			return walClass(err)
		}
		s.shut = false
		return "ok"
	case "set":
		var v []byte
		if ws[2] != "nil" {
			v = unhx(ws[2])
			if v == nil {
				v = []byte{}
			}
		}
		return walClass(s.w.Set(unhx(ws[1]), v))
	case "getk":
		v, err := s.w.Get(unhx(ws[1]))
		if err != nil {
			return walClass(err)
		}
		if len(v) == 0 {
			return "ok nil"
		}
		return "ok " + hx(v)
	case "setu":
		return walClass(s.w.SetUint64(unhx(ws[1]), atoiU(ws[2])))
	case "getu":
		v, err := s.w.GetUint64(unhx(ws[1]))
		if err != nil {
			return walClass(err)
		}
		return fmt.Sprintf("ok %d", v)
	case "ctr":
		c := s.coll.Summary().Counters
		return fmt.Sprintf("appends=%d entriesW=%d bytesW=%d entriesR=%d bytesR=%d rot=%d head=%d tail=%d gets=%d sets=%d",
			c["log_appends"], c["log_entries_written"], c["log_entry_bytes_written"], c["log_entries_read"], c["log_entry_bytes_read"],
			c["segment_rotations"], c["head_truncations"], c["tail_truncations"], c["stable_gets"], c["stable_sets"])
	case "files":
		var names []string
		if s.realDir != "" {
			ents, _ := os.ReadDir(s.realDir)
			for _, e := range ents {
				if strings.HasSuffix(e.Name(), ".wal") {
					names = append(names, e.Name())
				}
			}
		} else {
			names = s.disk.FileNames()
		}
		sort.Strings(names)
		return strings.Join(names, " ")
	case "fmtcheck":
		// README layout of every segment file the meta store names (simfs runs): header magic/base/id/codec as named;
		// a sealed segment has an index frame header directly before IndexStart and its commit frames check; the tail's
		// commit frames check
		if s.disk == nil {
			return "ok"
		}
		ps := s.disk.MetaState()
		for _, si := range ps.Segments {
			name := segment.FileName(si)
			b, ok := s.disk.FileData(name)
			if !ok {
				return "bad: " + name + " missing"
			}
			sealed := !si.SealTime.IsZero()
			used := false
			for _, x := range b {
				if x != 0 {
					used = true
					break
				}
			}
			if !used && !sealed {
				continue // nothing committed yet
			}
			if len(b) < 32 || uint32(b[0])|uint32(b[1])<<8|uint32(b[2])<<16|uint32(b[3])<<24 != 0x58eb6b0d {
				return "bad: " + name + " has no file header (magic)"
			}
			le64 := func(o int) uint64 {
				var v uint64
				for k := 7; k >= 0; k-- {
					v = v<<8 | uint64(b[o+k])
				}
				return v
			}
			if le64(8) != si.BaseIndex || le64(16) != si.ID || le64(24) != si.Codec {
				return fmt.Sprintf("bad: %s header says base=%d id=%d codec=%d", name, le64(8), le64(16), le64(24))
			}
			commits, covered, bad := readmeWalk(b)
			if bad != 0 {
				return fmt.Sprintf("bad: %s commit frame at offset %d does not carry the CRC of its bytes", name, bad)
			}
			if sealed {
				is := int(si.IndexStart)
				if is < 8 || is > len(b) || b[is-8] != 2 {
					return fmt.Sprintf("bad: %s sealed with IndexStart=%d but no index frame header precedes it", name, si.IndexStart)
				}
				if si.MaxIndex >= si.BaseIndex && uint64(covered) < si.MaxIndex-si.BaseIndex+1 {
					return fmt.Sprintf("bad: %s sealed up to %d but its commit frames cover %d entries from %d", name, si.MaxIndex, covered, si.BaseIndex)
				}
			}
			_ = commits
		}
		return "ok"
	case "meta":
		if s.disk == nil {
			return "n/a"
		}
		ps := s.disk.MetaState()
		var parts []string
		for _, si := range ps.Segments {
			sealed := 0
			if !si.SealTime.IsZero() {
				sealed = 1
			}
			parts = append(parts, fmt.Sprintf("%d/%d/%d/%d/%d/%d/%d", si.ID, si.BaseIndex, si.MinIndex, si.MaxIndex, si.IndexStart, sealed, si.Codec))
		}
		return fmt.Sprintf("%d %s", ps.NextSegmentID, strings.Join(parts, " "))
	}
	return "bad-op"
}

func execWalWith(real bool) func(ops []string) []string {
	return func(ops []string) []string {
		s := newWalImpl(real)
		defer s.cleanup()
		out := make([]string, len(ops))
		for i, op := range ops {
			out[i] = s.timedExec(op)
		}
		return out
	}
}

func newWalImpl(real bool) *walImpl {
	s := &walImpl{}
	if real {
		base := os.Getenv("VERIF_TMP")
		if base == "" {
			base = os.TempDir()
		}
		d, err := os.MkdirTemp(base, "verif-wal-")
		if err != nil {
			panic(err)
		}
		s.realDir = d
	} else {
		s.disk = simfs.New()
		s.disk.Record = false
	}
	return s
}

var _ = filepath.Join
var _ = types.ErrClosed
var _ = segment.FileName
var _ = hclog.NewNullLogger
var _ = bytes.Equal
var _ = strconv.Itoa

// ---- monitors ----

func encLenOf(l *raft.Log) int {
	var b bytes.Buffer
	if err := (&wal.BinaryCodec{}).Encode(l, &b); err != nil {
		return 0
	}
	return b.Len()
}

// walMonitor checks, on the real code's outputs only:
//
//	C13: after every mutating call the directory holds exactly the files of the
//	     segments meta names; segment IDs are never reused;
//	C20: counters equal the true totals derived from the API results.
func walMonitor(ops, impl []string) []Violation {
	var vs []Violation
	add := func(p, what, detail string, upto int) {
		vs = append(vs, Violation{Property: p, What: what, Detail: detail, Ops: ops[:upto+1], Impl: impl[:upto+1]})
	}
	var appends, entriesW, bytesW, entriesR, bytesR, head, tail, gets, sets uint64
	lastRot, storesSince := -1, 0
	seenIDs := map[uint64]uint64{} // id -> base
	var lastNext uint64
	var curFirst, curLast uint64 // from the most recent first/last outputs
	closed := true
	lastMeta := ""
	var createdCodec uint64
	haveLogs, openedOnce := false, false
	_ = haveLogs
	for i, op := range ops {
		if impl[i] == "blocked" {
			vs = append(vs, Violation{Property: "C05", What: "a call did not return (the reference model answers at once)", Detail: op, Ops: ops[:i+1], Impl: impl[:i+1]})
			break
		}
		if strings.HasPrefix(impl[i], "err dead-after") {
			break
		}
		ws := strings.Fields(op)
		out := impl[i]
		if out == "panic" {
			add("C11", "WAL call panicked", op, i)
			continue
		}
		switch ws[0] {
		case "open", "reopen":
			closed = out != "ok"
			if ws[0] == "open" {
				lastRot, storesSince = -1, 0 // a fresh collector
				createdCodec, haveLogs = atoiU(ws[2]), false
				if out == "ok" && createdCodec != wal.CodecBinaryV1 && createdCodec < wal.FirstExternalCodecID {
					add("C12", "a reserved codec ID was accepted", op, i)
				}
				if out != "ok" && (createdCodec == wal.CodecBinaryV1 || createdCodec >= wal.FirstExternalCodecID) {
					add("C12", "Open of a fresh directory failed", op+" -> "+out, i)
				}
			} else if openedOnce {
				c := atoiU(ws[1])
				if c == createdCodec && out != "ok" {
					add("C12", "a WAL created with a codec is refused on reopen with that same codec", fmt.Sprintf("created with codec %d; %s -> %s", createdCodec, op, out), i)
				}
				if c != createdCodec && out == "ok" {
					add("C12", "a directory written with a different codec ID is accepted", fmt.Sprintf("created with codec %d; %s -> %s", createdCodec, op, out), i)
				}
			}
			if ws[0] == "open" && out == "ok" {
				openedOnce = true
			}
		case "close":
			closed = true
		case "store":
			if out == "ok" {
				appends++
				storesSince++
				for _, t := range ws[1:] {
					l := parseLogTok(t)
					entriesW++
					bytesW += uint64(encLenOf(l))
				}
			}
		case "get":
			if !closed {
				entriesR++
				if strings.HasPrefix(out, "ok ") {
					f := strings.Fields(out)
					var t time.Time
					_ = t
					// re-encode what was returned to obtain the byte count the WAL read
					l := &raft.Log{Index: atoiU(f[1]), Term: atoiU(f[2]), Type: raft.LogType(atoiU(f[3])), Data: unhx(f[4]), Extensions: unhx(f[5])}
					// time: use the stored entry's encoding length = varints + blobs + 15/16; derive from zone offset
					sec, _ := strconv.ParseUint(f[6], 10, 64)
					nsec, _ := strconv.ParseInt(f[7], 10, 64)
					off, _ := strconv.Atoi(f[8])
					l.AppendedAt = time.Unix(int64(sec-62135596800), nsec).In(time.FixedZone("", off))
					bytesR += uint64(encLenOf(l))
				}
			}
		case "set", "setu":
			if !closed {
				sets++
			}
		case "getk", "getu":
			if !closed {
				gets++
			}
		case "first":
			curFirst = atoiU(out)
		case "last":
			curLast = atoiU(out)
		case "del":
			if f := strings.Fields(out); len(f) == 3 && f[0] == "ok" {
				if f[1] == "head" {
					head += atoiU(f[2])
				} else if f[1] == "tail" {
					tail += atoiU(f[2])
				}
			}
		case "fmtcheck":
			if strings.HasPrefix(out, "bad:") && !closed {
				add("C09", "a segment file the meta store names does not have the documented layout", out, i)
			}
		case "count": // pseudo-op never emitted
		case "meta":
			if out == "n/a" || out == "unsettled" || closed {
				continue
			}
			lastMeta = out
			f := strings.Fields(out)
			next := atoiU(f[0])
			if next < lastNext {
				add("C13", "NextSegmentID went backwards", out, i)
			}
			lastNext = next
			for _, sgm := range f[1:] {
				p := strings.Split(sgm, "/")
				id, base := atoiU(p[0]), atoiU(p[1])
				if id >= next {
					add("C13", "segment ID not below NextSegmentID", out, i)
				}
				if b, ok := seenIDs[id]; ok && b != base {
					add("C13", "segment ID reused for a different segment", fmt.Sprintf("id %d base %d and %d", id, b, base), i)
				}
				seenIDs[id] = base
			}
		case "files":
			if lastMeta == "" || out == "unsettled" || closed {
				continue
			}
			var want []string
			for _, sgm := range strings.Fields(lastMeta)[1:] {
				p := strings.Split(sgm, "/")
				want = append(want, segment.FileName(types.SegmentInfo{ID: atoiU(p[0]), BaseIndex: atoiU(p[1])}))
			}
			sort.Strings(want)
			if strings.Join(want, " ") != out {
				add("C13", "directory does not hold exactly the files of the live segments", fmt.Sprintf("files=[%s] live=[%s]", out, strings.Join(want, " ")), i)
			}
		case "ctr":
			if !strings.HasPrefix(out, "appends=") {
				continue
			}
			want := fmt.Sprintf("appends=%d entriesW=%d bytesW=%d entriesR=%d bytesR=%d", appends, entriesW, bytesW, entriesR, bytesR)
			if !strings.HasPrefix(out, want+" ") {
				add("C20", "append/read counters differ from the true totals", fmt.Sprintf("got %q want prefix %q", out, want), i)
			}
			wantT := fmt.Sprintf("head=%d tail=%d gets=%d sets=%d", head, tail, gets, sets)
			if !strings.HasSuffix(out, wantT) {
				add("C20", "truncation/stable counters differ from the true totals", fmt.Sprintf("got %q want suffix %q", out, wantT), i)
			}
			// rotations: only an acknowledged append that fills the tail moves the log to a new segment file — between two
			// readings the counter grows by at most the number of acknowledged appends in between (truncations, re-basing,
			// restarts and stable operations are not rotations)
			var rot int
			if k := strings.Index(out, " rot="); k >= 0 {
				fmt.Sscanf(out[k:], " rot=%d", &rot)
				if lastRot >= 0 && (rot < lastRot || rot-lastRot > storesSince) {
					add("C20", "segment_rotations moved without a rotation", fmt.Sprintf("rotations %d -> %d across %d acknowledged appends", lastRot, rot, storesSince), i)
				}
				lastRot, storesSince = rot, 0
			}
		}
	}
	_, _ = curFirst, curLast
	return vs
}

// ---- generator ----

type walGen struct {
	r     *Rng
	impl  *walImpl
	ops   []string
	out   []string
	tags  map[string]bool
	next  uint64 // next index to append (0: unknown/empty)
	first uint64
	last  uint64
	real  bool
}

func (g *walGen) do(op string) string {
	o := g.impl.timedExec(op)
	g.ops = append(g.ops, op)
	g.out = append(g.out, o)
	return o
}

func (g *walGen) mkLog(idx uint64) *raft.Log {
	r := g.r
	l := &raft.Log{Index: idx, Term: uint64(1 + r.Intn(5)), Type: raft.LogType(r.Intn(4)), AppendedAt: time.Unix(int64(1600000000+r.Intn(1000)), int64(r.Intn(1000))).UTC()}
	switch r.Intn(6) {
	case 0:
	case 1:
		l.Data = r.Bytes(1 + r.Intn(7))
	case 2:
		l.Data = r.Bytes(8 * (1 + r.Intn(3)))
	case 3:
		l.Data = r.Bytes(100 + r.Intn(200))
	default:
		l.Data = r.Bytes(r.Intn(40))
	}
	if r.Chance(1, 5) {
		l.Extensions = r.Bytes(1 + r.Intn(10))
	}
	if r.Chance(1, 10) {
		// (negative sub-minute offsets do not survive Go's own MarshalBinary/UnmarshalBinary; not used)
		h := r.Intn(5) - 2
		off := 3600 * h
		if h >= 0 {
			off += r.Intn(2) * 30
		}
		l.AppendedAt = l.AppendedAt.In(time.FixedZone("", off))
	}
	return l
}

func (g *walGen) refresh() {
	g.first = atoiU(g.do("first"))
	g.last = atoiU(g.do("last"))
}

func (g *walGen) observe() {
	g.refresh()
	// probe set: first-1, first, interior, last, last+1, 0, max
	probes := []uint64{g.first, g.last, g.last + 1, 0}
	if g.first > 0 {
		probes = append(probes, g.first-1)
	}
	if g.last > g.first {
		probes = append(probes, g.first+uint64(g.r.Intn(int(g.last-g.first))))
		probes = append(probes, g.first+uint64(g.r.Intn(int(g.last-g.first))))
	}
	if g.r.Chance(1, 4) {
		probes = append(probes, math.MaxUint64)
	}
	for _, p := range probes {
		g.do(fmt.Sprintf("get %d", p))
	}
	if !g.real {
		g.do("meta")
		g.do("fmtcheck")
	}
	g.do("files")
}

func (g *walGen) count() uint64 {
	if g.last == 0 || g.last < g.first {
		return 0
	}
	return g.last - g.first + 1
}

func (g *walGen) step(kind string) {
	r := g.r
	g.tags[kind] = true
	switch kind {
	case "store1", "store3", "storeN":
		n := map[string]int{"store1": 1, "store3": 3, "storeN": 1 + r.Intn(8)}[kind]
		start := g.last + 1
		if g.last == 0 {
			start = pick(r, []uint64{1, 1, 7, 1 << 40, uint64(1 + r.Intn(100))})
			if g.next > 0 && r.Bool() {
				start = g.next
			}
		}
		var toks []string
		for i := 0; i < n; i++ {
			toks = append(toks, logTok(g.mkLog(start+uint64(i))))
		}
		late := false
		if r.Chance(1, 4) {
			g.do("late") // the rotation this append may queue is still pending when the next call arrives
			g.tags["late-rotation"] = true
			late = true
		}
		if g.do("store "+strings.Join(toks, " ")) == "ok" {
			g.next = start + uint64(n)
			if late && r.Chance(1, 2) {
				// shut down with the rotation still pending, restart twice (the first Open completes the rotation,
				// the second reads what the first one committed), read the batch back
				g.do("reopen 1")
				g.do("reopen 1")
				g.do(fmt.Sprintf("get %d", start))
				g.do(fmt.Sprintf("get %d", start+uint64(n)-1))
				g.tags["late-rotation-two-restarts"] = true
			}
		}
	case "storeGap":
		g.do("store " + logTok(g.mkLog(g.last+2+uint64(r.Intn(3)))))
	case "storeBack":
		idx := g.last
		if idx == 0 {
			idx = 0
		}
		g.do("store " + logTok(g.mkLog(idx)))
	case "storeNonConsec":
		a := g.mkLog(g.last + 1)
		b := g.mkLog(g.last + 3)
		g.do("store " + logTok(a) + " " + logTok(b))
	case "storeBadTime":
		l := g.mkLog(g.last + 1)
		l.AppendedAt = l.AppendedAt.In(time.FixedZone("bad", -90))
		g.do("store " + logTok(l))
	case "storeZero":
		g.do("store " + logTok(g.mkLog(0)))
	case "delHead", "delTail", "delAll", "delMid", "delEmpty", "delBelow", "delAbove", "delHeadFrom0", "delToMax":
		var mn, mx uint64
		c := g.count()
		switch kind {
		case "delHead":
			mn = g.first
			if r.Bool() {
				mn = uint64(r.Intn(int(g.first%1000 + 1)))
			}
			mx = g.first
			if c > 1 {
				mx = g.first + uint64(r.Intn(int(c-1)))
			}
		case "delTail":
			mx = g.last
			if r.Bool() {
				mx = g.last + uint64(r.Intn(5))
			}
			mn = g.last
			if c > 1 {
				mn = g.first + 1 + uint64(r.Intn(int(c-1)))
			}
		case "delAll":
			mn, mx = g.first, g.last
			if r.Bool() {
				mn, mx = 0, g.last+uint64(r.Intn(10))
			}
		case "delMid":
			if c < 3 {
				return
			}
			mn = g.first + 1
			mx = g.last - 1
		case "delEmpty":
			mn, mx = g.first+2, g.first+1
		case "delBelow":
			if g.first < 2 {
				return
			}
			mn, mx = 0, g.first-1
		case "delAbove":
			mn, mx = g.last+1, g.last+5
		case "delHeadFrom0":
			mn, mx = 0, g.first
		case "delToMax":
			mn, mx = g.first, math.MaxUint64
			if c > 1 && r.Bool() {
				mn = g.first + 1
			}
		}
		sample := r.Chance(1, 2)
		if sample {
			g.do("ctr")
		}
		g.do(fmt.Sprintf("del %d %d", mn, mx))
		if sample {
			g.do("ctr")
		}
		g.refresh()
	case "reopen":
		g.do("reopen 1")
	case "closeOps":
		g.do("close")
		g.do("get 1")
		g.do("first")
		g.do("store " + logTok(g.mkLog(g.last+1)))
		g.do("del 1 1")
		g.do("getk 6b")
		g.do("close")
		g.do("reopen 1")
	case "stable":
		k := hx([]byte(pick(r, []string{"CurrentTerm", "LastVoteTerm", "LastVoteCand", "k"})))
		switch r.Intn(5) {
		case 0:
			g.do(fmt.Sprintf("setu %s %d", k, genU64(r)))
			g.do("getu " + k)
		case 1:
			g.do(fmt.Sprintf("set %s %s", k, hx(r.Bytes(1+r.Intn(20)))))
			g.do("getk " + k)
			g.do("getu " + k)
		case 2:
			g.do(fmt.Sprintf("set %s nil", k))
			g.do("getk " + k)
		case 3:
			g.do(fmt.Sprintf("set %s -", k))
			g.do("getk " + k)
			g.do("getu " + k)
		default:
			g.do("getk " + k)
			g.do("getu " + hx([]byte("unset")))
		}
	}
}

var walAlphabet = []string{"store1", "store3", "storeN", "store1", "store3", "storeGap", "storeBack", "storeNonConsec", "storeBadTime", "storeZero",
	"delHead", "delHead", "delTail", "delTail", "delAll", "delMid", "delEmpty", "delBelow", "delAbove", "delHeadFrom0", "delToMax", "reopen", "reopen", "closeOps", "stable", "stable"}

func genWalCase(r *Rng, id string, real bool, steps int, alphabet []string, forced []string) *Case {
	g := &walGen{r: r, impl: newWalImpl(real), tags: map[string]bool{}, real: real}
	defer g.impl.cleanup()
	size := pick(r, []int{1, 1, 200, 300, 512, 4096, 1 << 20})
	g.do(fmt.Sprintf("open %d 1", size))
	g.tags[fmt.Sprintf("size:%d", size)] = true
	g.observe()
	seq := forced
	if seq == nil {
		for i := 0; i < steps; i++ {
			seq = append(seq, pick(r, alphabet))
		}
	}
	for _, k := range seq {
		g.step(k)
		g.observe()
	}
	g.do("ctr")
	c := &Case{ID: id, Props: []string{"C05", "C08", "C12", "C13", "C20"}, Ops: g.ops, Impl: g.out, Exec: execWalWith(real), Monitor: walMonitor, SpecProps: []string{"C05"}}
	for t := range g.tags {
		c.Tags = append(c.Tags, t)
	}
	c.NonTrivial = len(g.tags) > 2
	c.Shape = strings.Join(seq, ",") + fmt.Sprint(size)
	if len(seq) > 6 {
		c.Shape = strings.Join(sortedKeys(g.tags), ",")
	}
	return c
}

func suiteWalSeq(seed uint64, tier string) *Report {
	rep := newReport("wal", seed, tier)
	rep.Rule = "operation sequences over {store1, store3, storeN, storeGap, storeBack, storeNonConsec, storeBadTime, storeZero, delHead, delTail, delAll, delMid, delEmpty, delBelow, delAbove, delHeadFrom0, reopen, close+calls, stable set/get} × segment sizes {one entry per segment, 200, 300, 512, 4096, 1MiB} × start indexes {1, 7, 2^40, random}: exhaustive over a reduced alphabet to a length bound, random beyond; after every step FirstIndex, LastIndex, GetLog on a probe set (first-1, first, interior, last, last+1, 0, 2^64-1), the meta record and the directory listing are compared with Model.Wal, and the API results with Spec.Log. Non-trivial = at least two different kinds of step; distinct by step sequence (short) or step-kind set (long) and segment size."
	r := NewRng(seed ^ 0x77a1)
	var cases []*Case
	// exhaustive part
	small := []string{"store1", "store3", "delHead", "delTail", "delAll", "reopen"}
	depth := 3
	nRand, nReal := 120, 10
	if tier == "thorough" {
		depth = 4
		nRand, nReal = 1500, 80
	}
	var seqs [][]string
	var rec func(cur []string)
	rec = func(cur []string) {
		if len(cur) > 0 {
			seqs = append(seqs, append([]string(nil), cur...))
		}
		if len(cur) == depth {
			return
		}
		for _, a := range small {
			rec(append(cur, a))
		}
	}
	rec(nil)
	for i, sq := range seqs {
		cases = append(cases, genWalCase(r.Fork(), fmt.Sprintf("wal-ex-%d-%d", seed, i), false, 0, nil, sq))
	}
	rep.Dist["exhaustive_sequences"] = len(seqs)
	for i := 0; i < nRand; i++ {
		cases = append(cases, genWalCase(r.Fork(), fmt.Sprintf("wal-rnd-%d-%d", seed, i), false, 4+r.Intn(10), walAlphabet, nil))
	}
	for i := 0; i < 24; i++ {
		cases = append(cases, genCodecIDCase(r.Fork(), fmt.Sprintf("wal-codec-%d-%d", seed, i)))
	}
	RunCases("wal", cases, rep)
	// the same on the real filesystem + BoltDB
	var realCases []*Case
	realAlphabet := []string{"store1", "store3", "storeN", "delHead", "delTail", "delAll", "reopen", "stable", "storeGap", "delMid", "closeOps"}
	for i := 0; i < nReal; i++ {
		realCases = append(realCases, genWalCase(r.Fork(), fmt.Sprintf("wal-real-%d-%d", seed, i), true, 4+r.Intn(6), realAlphabet, nil))
	}
	rep.Dist["real_fs_cases"] = len(realCases)
	RunCases("wal", realCases, rep)
	return rep
}

func init() { suites["wal"] = suiteWalSeq }

func cnt(f, l uint64) uint64 {
	if l == 0 || l < f {
		return 0
	}
	return l - f + 1
}

func delAnswer(f0, l0, f1, l1, mn uint64) string {
	c0, c1 := cnt(f0, l0), cnt(f1, l1)
	if c0 <= c1 {
		return "ok none 0"
	}
	side := "tail"
	if mn <= f0 {
		side = "head"
	}
	return fmt.Sprintf("ok %s %d", side, c0-c1)
}

func genCodecIDCase(r *Rng, id string) *Case {
	g := &walGen{r: r, impl: newWalImpl(false), tags: map[string]bool{"codec-matrix": true}}
	defer g.impl.cleanup()
	ids := []uint64{1, 1 << 16, 1<<16 + 1, 0xdeadbeefcafe, 0, 2, 65535}
	created := pick(r, ids)
	if g.do(fmt.Sprintf("open %d %d", pick(r, []int{1, 300, 4096}), created)) == "ok" {
		// three shapes of directory: never appended to, appended to, emptied again by deleting everything
		switch shape := r.Intn(4); shape {
		case 0:
			g.tags["codec:empty-never-appended"] = true
		case 1:
			g.step("store3")
			g.observe()
			g.step("delAll")
			g.tags["codec:emptied"] = true
		default:
			g.step("store3")
			g.observe()
			if r.Bool() {
				g.step("store3")
			}
		}
		for k := 0; k < 3; k++ {
			c := created
			if r.Chance(1, 2) {
				c = pick(r, ids)
			}
			if g.do(fmt.Sprintf("reopen %d", c)) == "ok" {
				g.observe()
				if r.Bool() {
					g.step("store1")
				}
			} else {
				g.do(fmt.Sprintf("reopen %d", created))
			}
		}
	}
	c := &Case{ID: id, Props: []string{"C12", "C05"}, Ops: g.ops, Impl: g.out, Exec: execWalWith(false), Monitor: walMonitor, SpecProps: []string{"C05"}}
	c.Tags = []string{"codec-matrix", fmt.Sprintf("codec:%d", created)}
	c.NonTrivial = true
	c.Shape = fmt.Sprintf("codec/%d/%d", created, len(g.ops))
	return c
}
