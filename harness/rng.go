package main

// splitmix64: every random choice of every suite derives from one stream seeded
// by VERIF_SEED so that a disagreement replays exactly.
type Rng struct{ s uint64 }

func NewRng(seed uint64) *Rng {
	// scramble the seed so that consecutive seeds give unrelated streams (the
	// generator state advances by a constant, so seed*gamma would only shift the stream)
	z := seed + 0x632BE59BD9B4E019
	z = (z ^ (z >> 30)) * 0xBF58476D1CE4E5B9
	z = (z ^ (z >> 27)) * 0x94D049BB133111EB
	z ^= z >> 31
	z = (z ^ (z >> 33)) * 0xff51afd7ed558ccd
	return &Rng{s: z ^ (z >> 29)}
}

func (r *Rng) U64() uint64 {
	r.s += 0x9E3779B97F4A7C15
	z := r.s
	z = (z ^ (z >> 30)) * 0xBF58476D1CE4E5B9
	z = (z ^ (z >> 27)) * 0x94D049BB133111EB
	return z ^ (z >> 31)
}

func (r *Rng) Intn(n int) int {
	if n <= 0 {
		return 0
	}
	return int(r.U64() % uint64(n))
}

func (r *Rng) Bool() bool { return r.U64()&1 == 1 }

// Chance returns true with probability num/den.
func (r *Rng) Chance(num, den int) bool { return r.Intn(den) < num }

func (r *Rng) Bytes(n int) []byte {
	b := make([]byte, n)
	for i := range b {
		b[i] = byte(r.U64())
	}
	return b
}

// Fork derives an independent stream (so adding draws in one case does not
// perturb the following cases).
func (r *Rng) Fork() *Rng { return &Rng{s: r.U64()} }

func pick[T any](r *Rng, xs []T) T { return xs[r.Intn(len(xs))] }
