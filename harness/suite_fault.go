package main

import (
	"fmt"
	"math"
	"strings"

	"github.com/hashicorp/raft"
	wal "github.com/hashicorp/raft-wal"
	"verifharness/simfs"
)

// fault suite (C10): every individual VFS / MetaStore call of a workload as the failing one (transient or
// persistent, partial writes), followed by further successful operations and a clean reopen. Monitors on the real
// code: (a) no entry whose StoreLogs returned nil is lost or altered, in the running process or after reopen;
// (b) entries of a failed StoreLogs are not visible in the running process; (c) after reopen every call that returned
// an error is applied in full or not at all.

type faultPlan struct {
	at         int    // ordinal of the fault-eligible call that fails
	persistent bool   // every later call of the same kind fails too, until cleared
	landed     int    // for a failing write: bytes that land
	kind       string // filled in when it fires
	fired      int
}

func (p *faultPlan) hook(kind string, call int, name string) *simfs.FaultAction {
	if call == p.at || (p.persistent && p.fired > 0 && kind == p.kind) {
		if p.fired == 0 {
			p.kind = kind
		}
		p.fired++
		return &simfs.FaultAction{Landed: p.landed}
	}
	return nil
}

type faultRun struct {
	viols []Violation
	calls int
	tags  map[string]bool
}

func observe(w *wal.WAL) (*refLog, error) {
	first, last, entries, err := readAll(w)
	if err != nil {
		return nil, err
	}
	_ = last
	return &refLog{first: first, entries: entries, stable: map[string]string{}}, nil
}

func sameLog(a, b *refLog) bool { return a.equalLog(b.firstIndex(), b.lastIndex(), b.entries) }

// runFaultCase executes ops with the plan (nil = dry run) and evaluates the monitors.
func runFaultCase(segSize int, ops []string, plan *faultPlan, clearAfterOp int) *faultRun {
	fr := &faultRun{tags: map[string]bool{}}
	d := simfs.New()
	d.Record = false
	if plan != nil {
		d.Fault = plan.hook
	}
	var replay []string
	onlyDelFaulted := false // the only calls that failed since the last clean reopen are DeleteRange calls
	add := func(p, what, detail string) {
		if len(fr.viols) < 6 {
			fr.viols = append(fr.viols, Violation{Property: p, What: what, Detail: detail, Ops: append(append([]string(nil), replay...))})
			if p == "C10" && onlyDelFaulted {
				// the damage follows a DeleteRange that failed part-way: the truncation was not all-or-nothing (C04)
				fr.viols = append(fr.viols, Violation{Property: "C04", What: "after a DeleteRange that failed part-way: " + what, Detail: detail, Ops: append(append([]string(nil), replay...))})
			}
		}
	}
	if plan != nil {
		replay = append(replay, fmt.Sprintf("fault plan: fail fault-eligible call #%d (persistent=%v, write lands %d bytes); faults cleared after op %d", plan.at, plan.persistent, plan.landed, clearAfterOp))
		replay = append(replay, fmt.Sprintf("segment size %d", segSize))
	}
	w, err := openWalOn(d, segSize, nil)
	if err != nil {
		// a fault during the very first Open: retry with faults cleared must work
		d.Fault = nil
		w, err = openWalOn(d, segSize, nil)
		if err != nil {
			add("C10", "Open fails even after the fault was cleared", err.Error())
			return fr
		}
		fr.tags["fault-in-open"] = true
	}
	mem := &refLog{stable: map[string]string{}}
	cands := []*refLog{mem.clone()}
	acked := map[uint64]string{}
	var failedOps []string
	checkAcked := func(obs *refLog, where string) {
		for idx, want := range acked {
			if idx < obs.firstIndex() || idx > obs.lastIndex() || len(obs.entries) == 0 {
				add("C10", "an entry whose StoreLogs returned nil is lost "+where, fmt.Sprintf("index %d", idx))
				return
			}
			if obs.entries[idx-obs.first] != want {
				add("C10", "an entry whose StoreLogs returned nil is altered "+where, fmt.Sprintf("index %d", idx))
				return
			}
		}
	}
	for i, op := range ops {
		replay = append(replay, op)
		ws := strings.Fields(op)
		firedBefore := 0
		if plan != nil {
			firedBefore = plan.fired
		}
		var res string
		switch ws[0] {
		case "store":
			var logs []*raft.Log
			for _, t := range ws[1:] {
				logs = append(logs, parseLogTok(t))
			}
			res = walClass(w.StoreLogs(logs))
			w.DeleteRange(math.MaxUint64, math.MaxUint64)
		case "del":
			res = walClass(w.DeleteRange(atoiU(ws[1]), atoiU(ws[2])))
		case "reopen":
			w.Close()
			d.Fault = nil
			var err error
			w, err = openWalOn(d, segSize, nil)
			if err != nil {
				add("C10", "clean reopen fails after an I/O error", err.Error())
				return fr
			}
			obs, oerr := observe(w)
			if oerr != nil {
				add("C10", "log unreadable after clean reopen", oerr.Error())
				return fr
			}
			// a failed call whose bytes reached the disk may also take effect only now, at recovery (the running
			// process ignored them): close the candidate set under late application of the failed calls
			all := append([]*refLog(nil), cands...)
			for _, fop := range failedOps {
				n := len(all)
				for j := 0; j < n && len(all) < 256; j++ {
					c2 := all[j].clone()
					if c2.apply(fop) {
						all = append(all, c2)
					}
				}
			}
			okc := false
			for _, c := range all {
				if sameLog(c, obs) {
					okc = true
				}
			}
			if !okc {
				add("C10", "after reopen a call that returned an error is neither applied in full nor not at all",
					fmt.Sprintf("reopened log first=%d last=%d n=%d; %d admissible states, first: first=%d last=%d n=%d", obs.firstIndex(), obs.lastIndex(), len(obs.entries),
						len(cands), cands[0].firstIndex(), cands[0].lastIndex(), len(cands[0].entries)))
			}
			checkAcked(obs, "after the next clean reopen")
			mem = obs
			cands = []*refLog{obs.clone()}
			failedOps = nil
			onlyDelFaulted = false
			if plan != nil && clearAfterOp >= 0 && i > clearAfterOp {
				d.Fault = nil
			}
			continue
		}
		faulted := plan != nil && plan.fired > firedBefore
		if faulted {
			fr.tags["fault:"+plan.kind] = true
		}
		if ws[0] == "del" {
			// issued: entries in the range are no longer promised
			mn, mx := atoiU(ws[1]), atoiU(ws[2])
			for idx := range acked {
				if idx >= mn && idx <= mx {
					delete(acked, idx)
				}
			}
		}
		switch {
		case res == "ok":
			// acknowledged: in-process state moves; persistent candidates move too
			if !mem.apply(op) {
				// the real code accepted something the reference rejects: C05's business, not ours
				fr.tags["accepted-rejected"] = true
			}
			var nc []*refLog
			for _, c := range cands {
				c2 := c.clone()
				if c2.apply(op) {
					nc = append(nc, c2)
				}
			}
			if len(nc) == 0 {
				nc = []*refLog{mem.clone()}
			}
			if faulted {
				// acknowledged although a call failed underneath (e.g. a failed delete of an old file): both outcomes of
				// earlier maybe-states stay admissible
				fr.tags["ok-despite-fault"] = true
			}
			cands = nc
			if ws[0] == "store" {
				for _, t := range ws[1:] {
					acked[atoiU(strings.SplitN(t, ":", 2)[0])] = tokKey(t)
				}
			}
		case faulted:
			// failed because of the injected fault: not applied in the running process, maybe applied on disk
			var nc []*refLog
			for _, c := range cands {
				nc = append(nc, c)
				c2 := c.clone()
				if c2.apply(op) {
					nc = append(nc, c2)
				}
			}
			cands = nc
			onlyDelFaulted = ws[0] == "del" && (onlyDelFaulted || len(failedOps) == 0)
			failedOps = append(failedOps, op)
			fr.tags["failed:"+ws[0]] = true
		default:
			// rejected for its own reasons (non-contiguous append, middle delete, sealed after a failed rotation …)
			fr.tags["rejected:"+ws[0]] = true
		}
		obs, oerr := observe(w)
		if oerr != nil {
			if !strings.Contains(oerr.Error(), "injected") {
				add("C10", "log unreadable in the running process after an I/O error", oerr.Error())
				return fr
			}
		} else {
			if faulted && res != "ok" && ws[0] == "store" && !sameLog(obs, mem) {
				add("C10", "entries of a failed StoreLogs are visible to readers in the running process",
					fmt.Sprintf("after failed store: first=%d last=%d n=%d, before first=%d last=%d n=%d", obs.firstIndex(), obs.lastIndex(), len(obs.entries), mem.firstIndex(), mem.lastIndex(), len(mem.entries)))
			}
			if res != "ok" && ws[0] == "del" && faulted && !sameLog(obs, mem) {
				// a failed truncation may be applied in full in memory? the code publishes only after success: must be unchanged
				after := mem.clone()
				after.apply(op)
				if !sameLog(obs, after) {
					add("C10", "a failed DeleteRange left the running process in neither the old nor the new state", "")
				} else {
					mem = after
				}
			}
			checkAcked(obs, "in the running process")
		}
		if plan != nil && clearAfterOp >= 0 && i >= clearAfterOp {
			d.Fault = nil
		}
	}
	w.Close()
	fr.calls = d.FaultCalls
	return fr
}

func genFaultWorkload(r *Rng) (int, []string) {
	segSize, ops := genCrashWorkload(r)
	ops = ops[1:] // drop "open": the runner opens itself
	// make sure acknowledged appends follow the fault, then reopen
	var last uint64
	ref := &refLog{stable: map[string]string{}}
	var out []string
	for _, o := range ops {
		if strings.HasPrefix(o, "setu") {
			continue
		}
		out = append(out, o)
		ref.apply(o)
	}
	last = ref.lastIndex()
	next := last + 1
	if last == 0 {
		next = ref.first + 1
		if next < 2 {
			next = 3
		}
	}
	for k := 0; k < 2; k++ {
		l := &raft.Log{Index: next, Term: 7, Data: r.Bytes(5 + r.Intn(30))}
		out = append(out, "store "+logTok(l))
		next++
	}
	if r.Bool() {
		// a suffix truncation inside the tail segment after the fault (ForceSeal of whatever the failed call left
		// behind), then the restart
		out = append(out, fmt.Sprintf("del %d %d", next-1, next-1))
		next--
	}
	out = append(out, "reopen")
	l := &raft.Log{Index: next, Term: 8, Data: r.Bytes(8)}
	out = append(out, "store "+logTok(l), "reopen")
	return segSize, out
}

func suiteFault(seed uint64, tier string) *Report {
	rep := newReport("fault", seed, tier)
	rep.Rule = "workloads of appends (filling segments), head/tail/whole-log truncations and base-index resets on the real WAL + segment code over simfs; for every fault-eligible VFS/MetaStore call of the workload (create, write with 0/partial/full bytes landed, sync, delete, list, open, meta load, meta commit) that call is made to fail, once or persistently until the faulty operation returns, then the workload continues (further acknowledged appends) and the WAL is reopened cleanly; monitors compare the running process and the reopened WAL with a ghost log that branches on every failed call. Non-trivial = the fault actually fired; distinct by (fault kind, operation kind it hit, persistent, outcome)."
	r := NewRng(seed ^ 0xfa17)
	nw := 10
	if tier == "thorough" {
		nw = 120
	}
	shapes := map[string]bool{}
	for k := 0; k < nw+2; k++ {
		cr := r.Fork()
		segSize, ops := genFaultWorkload(cr)
		if k >= nw {
			// fixed shapes: the first append into a fresh segment file is a batch larger than the segment writer's
			// 64 KiB commit buffer (k == nw: in a fresh log; k == nw+1: in the segment a rotation just created)
			segSize, ops = 4096, nil
			next := uint64(1)
			st := func(n, size int) {
				var toks []string
				for j := 0; j < n; j++ {
					toks = append(toks, logTok(&raft.Log{Index: next, Term: 3, Data: cr.Bytes(size + cr.Intn(64))}))
					next++
				}
				ops = append(ops, "store "+strings.Join(toks, " "))
			}
			if k == nw+1 {
				st(2, 1500)
				st(2, 1500) // fills the 4 KiB segment: rotation
			}
			at := next
			st(3, 30000)
			// if the big batch failed on the fault, these retry its first two indexes (acknowledged appends over the
			// rolled-back region); if it succeeded they are refused as non-contiguous and the two after them land
			next = at
			st(1, 20)
			st(1, 20)
			next = at + 3
			st(1, 20)
			st(1, 20)
			ops = append(ops, "reopen")
			st(1, 20)
			ops = append(ops, "reopen")
		}
		dry := runFaultCase(segSize, ops, nil, -1)
		for _, v := range dry.viols {
			rep.Violations = append(rep.Violations, v)
		}
		n := dry.calls
		rep.Cases++
		if len(rep.Samples) < 3 {
			rep.Samples = append(rep.Samples, map[string]any{"segment_size": segSize, "ops": clip(ops, 10), "fault_eligible_calls": n})
		}
		for at := 0; at < n; at++ {
			if tier != "thorough" && n > 40 && cr.Intn(n) >= 40 {
				continue
			}
			for _, variant := range []struct {
				persistent bool
				landed     int
			}{{false, 0}, {false, 13}, {true, 1 << 20}} {
				if variant.landed == 13 && cr.Intn(3) != 0 {
					continue
				}
				plan := &faultPlan{at: at, persistent: variant.persistent, landed: variant.landed}
				// faults are cleared as soon as the operation they hit has returned
				fr := runFaultCaseAuto(segSize, ops, plan)
				rep.Ops++
				if plan.fired > 0 {
					rep.Dist["fault:"+plan.kind]++
				}
				for t := range fr.tags {
					shapes[fmt.Sprint(plan.kind, variant.persistent, t)] = true
				}
				rep.Violations = append(rep.Violations, fr.viols...)
				if len(rep.Violations) > 60 {
					rep.NonTrivial = len(shapes)
					return rep
				}
			}
		}
	}
	rep.NonTrivial = len(shapes)
	return rep
}

// runFaultCaseAuto clears the fault plan once the operation during which it first fired has returned.
func runFaultCaseAuto(segSize int, ops []string, plan *faultPlan) *faultRun {
	// find the op index at which the fault fires with a probe run, then clear right after it
	probe := &faultPlan{at: plan.at, persistent: plan.persistent, landed: plan.landed}
	firedAt := -1
	{
		d := simfs.New()
		d.Record = false
		d.Fault = probe.hook
		w, err := openWalOn(d, segSize, nil)
		if err == nil {
			for i, op := range ops {
				ws := strings.Fields(op)
				switch ws[0] {
				case "store":
					var logs []*raft.Log
					for _, t := range ws[1:] {
						logs = append(logs, parseLogTok(t))
					}
					w.StoreLogs(logs)
					w.DeleteRange(math.MaxUint64, math.MaxUint64)
				case "del":
					w.DeleteRange(atoiU(ws[1]), atoiU(ws[2]))
				case "reopen":
					w.Close()
					d.Fault = nil
					w, err = openWalOn(d, segSize, nil)
				}
				if err != nil {
					break
				}
				if probe.fired > 0 {
					firedAt = i
					break
				}
			}
			if w != nil {
				w.Close()
			}
		} else {
			firedAt = 0
		}
	}
	return runFaultCase(segSize, ops, plan, firedAt)
}

func init() { suites["fault"] = suiteFault }
