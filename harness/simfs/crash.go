package simfs

import (
	"sort"

	"github.com/hashicorp/raft-wal/types"
)

// Crash-image construction (DESIGN §5): the disk state at any prefix of an
// event log, under a process crash (page cache survives) or a power loss with a
// persistence choice for everything that was not yet durable.

type pendingWrite struct {
	off  int64
	data []byte
}

type fileTrack struct {
	data         []byte
	dur          []byte
	synced       bool
	entryDurable bool
	pending      []pendingWrite
	handleNew    map[int]bool // handle id -> came from Create and has not synced yet
}

// Tracker replays events incrementally.
type Tracker struct {
	files   map[string]*fileTrack
	handles map[int]string
	created map[int]bool
	meta    types.PersistentState
	stable  map[string][]byte
	// OpenWriterDirSyncs mirrors the production fs: does the first Sync on a handle from OpenWriter also fsync the directory?
	OpenWriterDirSyncs bool
}

func NewTracker(from *Disk) *Tracker {
	t := &Tracker{files: map[string]*fileTrack{}, handles: map[int]string{}, created: map[int]bool{}, stable: map[string][]byte{}}
	if from != nil {
		from.mu.Lock()
		for n, f := range from.files {
			ft := &fileTrack{data: cp(f.data), dur: cp(f.dur), synced: f.synced, entryDurable: f.entryDurable}
			// bytes the OS holds but never fsynced (after a process crash) are still at the mercy of a power loss
			lo, hi := -1, -1
			for i := range f.data {
				var db byte
				if i < len(f.dur) {
					db = f.dur[i]
				}
				if f.data[i] != db {
					if lo < 0 {
						lo = i
					}
					hi = i + 1
				}
			}
			if lo >= 0 {
				lo &^= 7
				ft.pending = []pendingWrite{{int64(lo), cp(f.data[lo:hi])}}
			}
			t.files[n] = ft
		}
		t.meta = cpState(from.meta)
		for k, v := range from.stable {
			t.stable[k] = cp(v)
		}
		from.mu.Unlock()
	}
	return t
}

// Apply advances the tracked state by one event.
func (t *Tracker) Apply(ev Event) {
	if ev.Failed && ev.Kind != "write" {
		return
	}
	switch ev.Kind {
	case "create":
		t.files[ev.Name] = &fileTrack{data: make([]byte, ev.Size)}
		t.handles[ev.Handle] = ev.Name
		t.created[ev.Handle] = true
	case "openw":
		t.handles[ev.Handle] = ev.Name
		if t.OpenWriterDirSyncs {
			t.created[ev.Handle] = true
		}
	case "write":
		f := t.files[ev.Name]
		if f == nil {
			return
		}
		data := ev.Data
		if ev.Failed {
			data = data[:ev.Landed]
		}
		need := int(ev.Off) + len(data)
		if need > len(f.data) {
			f.data = append(f.data, make([]byte, need-len(f.data))...)
		}
		copy(f.data[ev.Off:], data)
		f.pending = append(f.pending, pendingWrite{ev.Off, cp(data)})
	case "sync":
		f := t.files[ev.Name]
		if f == nil {
			return
		}
		f.dur = cp(f.data)
		f.synced = true
		f.pending = nil
		if ev.DirSync {
			for _, g := range t.files {
				g.entryDurable = true
			}
		}
	case "delete":
		delete(t.files, ev.Name)
	case "commit":
		t.meta = cpState(*ev.Meta)
	case "setstable":
		if ev.Val == nil {
			delete(t.stable, string(ev.Key))
		} else {
			t.stable[string(ev.Key)] = cp(ev.Val)
		}
	}
}

// Choice decides what a power loss preserved.
type Choice struct {
	// KeepEntry: is a file whose directory entry is not durable still there?
	KeepEntry func(name string) bool
	// KeepChunk: did 8-byte chunk number `chunk` (file-absolute) of pending write number w of the file land?
	KeepChunk func(name string, w int, chunk int64) bool
}

// PendingChunks lists (file, write number, chunk) triples that a power loss may or may not preserve.
func (t *Tracker) PendingChunks() (out [][3]int64, names []string) {
	ns := make([]string, 0, len(t.files))
	for n := range t.files {
		ns = append(ns, n)
	}
	sort.Strings(ns)
	for fi, n := range ns {
		for w, p := range t.files[n].pending {
			for c := p.off / 8; c*8 < p.off+int64(len(p.data)); c++ {
				out = append(out, [3]int64{int64(fi), int64(w), c})
			}
		}
	}
	return out, ns
}

func (t *Tracker) NonDurableEntries() []string {
	var out []string
	for n, f := range t.files {
		if !f.entryDurable {
			out = append(out, n)
		}
	}
	sort.Strings(out)
	return out
}

// ProcessCrash: the process died, the OS kept everything it had been given.
func (t *Tracker) ProcessCrash() *Disk {
	d := New()
	for n, f := range t.files {
		d.files[n] = &file{data: cp(f.data), dur: cp(f.dur), synced: f.synced, entryDurable: f.entryDurable}
		// un-fsynced writes stay pending in the page cache: a later power loss may still lose them. simfs
		// approximates this by keeping `dur` as it was.
	}
	d.meta, d.hasMeta = cpState(t.meta), true
	for k, v := range t.stable {
		d.stable[k] = cp(v)
	}
	return d
}

// PowerLoss: durable content plus whatever the choice says landed.
func (t *Tracker) PowerLoss(c Choice) *Disk {
	d := New()
	for n, f := range t.files {
		if !f.entryDurable && !c.KeepEntry(n) {
			continue
		}
		img := cp(f.dur)
		for w, p := range f.pending {
			for ch := p.off / 8; ch*8 < p.off+int64(len(p.data)); ch++ {
				if !c.KeepChunk(n, w, ch) {
					continue
				}
				lo, hi := ch*8, ch*8+8
				if lo < p.off {
					lo = p.off
				}
				if hi > p.off+int64(len(p.data)) {
					hi = p.off + int64(len(p.data))
				}
				if int(hi) > len(img) {
					img = append(img, make([]byte, int(hi)-len(img))...)
				}
				copy(img[lo:hi], p.data[lo-p.off:hi-p.off])
			}
		}
		// a created file that was never synced may have any length up to its allocated size; keep the full
		// preallocated length when anything of it survives (file length is not trusted by the WAL)
		if len(img) < len(f.data) && c.KeepEntry(n) {
			img = append(img, make([]byte, len(f.data)-len(img))...)
		}
		d.files[n] = &file{data: img, dur: cp(img), synced: true, entryDurable: true}
	}
	d.meta, d.hasMeta = cpState(t.meta), true
	for k, v := range t.stable {
		d.stable[k] = cp(v)
	}
	return d
}
