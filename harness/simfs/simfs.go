// Package simfs is an in-memory types.VFS + types.MetaStore that implements the
// disk model of DESIGN §5: every call is recorded as an event, any call can be
// made to fail by a fault plan, open handles are counted, and crash images
// (process crash / power loss with a persistence choice) can be built from any
// prefix of the event log.
package simfs

import (
	"errors"
	"fmt"
	"io"
	"os"
	"sort"
	"sync"

	"github.com/hashicorp/raft-wal/types"
)

type Event struct {
	N       int    // ordinal among all events
	Kind    string // create write sync delete list openr openw close commit setstable load metaclose
	Name    string
	Off     int64
	Data    []byte
	Size    uint64
	DirSync bool // sync: this Sync also made the directory durable (handle came from Create, first Sync)
	Failed  bool
	Landed  int // write: bytes that reached the file when Failed
	Meta    *types.PersistentState
	Key     []byte
	Val     []byte
	Handle  int
}

// FaultAction tells a call to fail.
type FaultAction struct {
	Landed int // for write: how many bytes land before the failure
}

var ErrInjected = errors.New("simfs: injected I/O failure")

type file struct {
	cap          int // > 0: the file cannot grow beyond this size (Disk.CapFiles)
	data         []byte
	dur          []byte // content as of the last successful Sync (nil: never synced)
	synced       bool
	entryDurable bool
}

type Disk struct {
	mu sync.Mutex

	files  map[string]*file
	Events []Event

	meta      types.PersistentState
	hasMeta   bool
	stable    map[string][]byte
	metaOpen  bool
	MetaLoads int

	// Fault, if set, is consulted for every fault-eligible call (kind, ordinal of
	// that call among fault-eligible calls); non-nil return = fail.
	Fault      func(kind string, call int, name string) *FaultAction
	FaultCalls int

	// Before/After are called (without the lock held) around every mutating
	// event; used to probe what concurrent readers can see at that instant.
	Before func(ev *Event)
	After  func(ev *Event)

	nextHandle  int
	OpenHandles map[int]string // handle -> name (open, not yet closed)
	Record      bool

	// CapFiles: storage whose files have the size they were created with and cannot grow: a write that crosses the end
	// lands the bytes that fit and returns the short count with io.EOF (the contract of io.WriterAt on a fixed-size
	// object, e.g. a memory-mapped or block-backed file)
	CapFiles bool

	// ReadHook, if set, is called (without the lock held) at the start of every ReadAt; used to park a reader that
	// already holds a reference to a WAL state.
	ReadHook func(name string)
	// AfterGetStable, if set, is called (without the lock held) after GetStable has read the value and before it returns it
	AfterGetStable func(key []byte)
}

// OpenWriterDirSyncs mirrors the production fs package: does the first Sync on a handle obtained from
// OpenWriter also fsync the directory (as handles from Create do)? Set once at start-up from a probe of
// the real fs.FS, so that simfs keeps modelling what the production layer does.
var OpenWriterDirSyncs = false

func New() *Disk {
	return &Disk{files: map[string]*file{}, stable: map[string][]byte{}, OpenHandles: map[int]string{}, Record: true}
}

func cp(b []byte) []byte { return append([]byte(nil), b...) }

func (d *Disk) fault(kind, name string) *FaultAction {
	call := d.FaultCalls
	d.FaultCalls++
	if d.Fault == nil {
		return nil
	}
	return d.Fault(kind, call, name)
}

func (d *Disk) record(ev Event) *Event {
	ev.N = len(d.Events)
	if d.Record {
		d.Events = append(d.Events, ev)
		return &d.Events[len(d.Events)-1]
	}
	return &ev
}

// ---- VFS ----

func (d *Disk) ListDir(dir string) ([]string, error) {
	d.mu.Lock()
	defer d.mu.Unlock()
	if f := d.fault("list", ""); f != nil {
		d.record(Event{Kind: "list", Failed: true})
		return nil, ErrInjected
	}
	d.record(Event{Kind: "list"})
	names := make([]string, 0, len(d.files))
	for n := range d.files {
		names = append(names, n)
	}
	sort.Strings(names)
	return names, nil
}

type handle struct {
	d        *Disk
	name     string
	f        *file
	id       int
	writable bool
	created  bool // from Create: first Sync also syncs the directory
	synced   bool
	closed   bool
}

func (d *Disk) newHandle(name string, f *file, writable, created bool) *handle {
	d.nextHandle++
	h := &handle{d: d, name: name, f: f, id: d.nextHandle, writable: writable, created: created}
	d.OpenHandles[h.id] = name
	return h
}

func (d *Disk) Create(dir, name string, size uint64) (types.WritableFile, error) {
	d.mu.Lock()
	if f := d.fault("create", name); f != nil {
		d.record(Event{Kind: "create", Name: name, Size: size, Failed: true})
		d.mu.Unlock()
		return nil, ErrInjected
	}
	if _, ok := d.files[name]; ok {
		d.record(Event{Kind: "create", Name: name, Size: size, Failed: true})
		d.mu.Unlock()
		return nil, fmt.Errorf("simfs: create %s: %w", name, os.ErrExist)
	}
	ev := Event{Kind: "create", Name: name, Size: size}
	d.mu.Unlock()
	if d.Before != nil {
		d.Before(&ev)
	}
	d.mu.Lock()
	f := &file{data: make([]byte, size)}
	if d.CapFiles {
		f.cap = int(size)
	}
	d.files[name] = f
	h := d.newHandle(name, f, true, true)
	ev.Handle = h.id
	e := d.record(ev)
	d.mu.Unlock()
	if d.After != nil {
		d.After(e)
	}
	return h, nil
}

func (d *Disk) Delete(dir, name string) error {
	d.mu.Lock()
	if f := d.fault("delete", name); f != nil {
		d.record(Event{Kind: "delete", Name: name, Failed: true})
		d.mu.Unlock()
		return ErrInjected
	}
	if _, ok := d.files[name]; !ok {
		d.record(Event{Kind: "delete", Name: name, Failed: true})
		d.mu.Unlock()
		return fmt.Errorf("simfs: delete %s: %w", name, os.ErrNotExist)
	}
	ev := Event{Kind: "delete", Name: name}
	d.mu.Unlock()
	if d.Before != nil {
		d.Before(&ev)
	}
	d.mu.Lock()
	delete(d.files, name)
	e := d.record(ev)
	d.mu.Unlock()
	if d.After != nil {
		d.After(e)
	}
	return nil
}

func (d *Disk) open(kind, name string, writable bool) (*handle, error) {
	d.mu.Lock()
	defer d.mu.Unlock()
	if f := d.fault(kind, name); f != nil {
		d.record(Event{Kind: kind, Name: name, Failed: true})
		return nil, ErrInjected
	}
	f, ok := d.files[name]
	if !ok {
		d.record(Event{Kind: kind, Name: name, Failed: true})
		return nil, fmt.Errorf("simfs: open %s: %w", name, os.ErrNotExist)
	}
	h := d.newHandle(name, f, writable, writable && OpenWriterDirSyncs)
	d.record(Event{Kind: kind, Name: name, Handle: h.id})
	return h, nil
}

func (d *Disk) OpenReader(dir, name string) (types.ReadableFile, error) {
	h, err := d.open("openr", name, false)
	if err != nil {
		return nil, err
	}
	return h, nil
}

func (d *Disk) OpenWriter(dir, name string) (types.WritableFile, error) {
	h, err := d.open("openw", name, true)
	if err != nil {
		return nil, err
	}
	return h, nil
}

// ---- file handles ----

func (h *handle) ReadAt(p []byte, off int64) (int, error) {
	if rh := h.d.ReadHook; rh != nil {
		rh(h.name)
	}
	h.d.mu.Lock()
	defer h.d.mu.Unlock()
	if h.closed {
		return 0, os.ErrClosed
	}
	if off < 0 {
		return 0, errors.New("simfs: negative offset")
	}
	if len(p) == 0 {
		return 0, nil
	}
	if off >= int64(len(h.f.data)) {
		return 0, io.EOF
	}
	n := copy(p, h.f.data[off:])
	if n < len(p) {
		return n, io.EOF
	}
	return n, nil
}

func (h *handle) WriteAt(p []byte, off int64) (int, error) {
	d := h.d
	d.mu.Lock()
	if h.closed {
		d.mu.Unlock()
		return 0, os.ErrClosed
	}
	if !h.writable {
		d.mu.Unlock()
		return 0, errors.New("simfs: read-only handle")
	}
	ev := Event{Kind: "write", Name: h.name, Off: off, Data: cp(p), Handle: h.id}
	fa := d.fault("write", h.name)
	d.mu.Unlock()
	if d.Before != nil {
		d.Before(&ev)
	}
	d.mu.Lock()
	landed := len(p)
	short := false
	if h.f.cap > 0 && int(off)+landed > h.f.cap {
		landed = h.f.cap - int(off)
		if landed < 0 {
			landed = 0
		}
		short = true
	}
	if fa != nil {
		landed = fa.Landed
		if landed > len(p) {
			landed = len(p)
		}
		ev.Failed = true
		ev.Landed = landed
	}
	need := int(off) + landed
	if need > len(h.f.data) {
		h.f.data = append(h.f.data, make([]byte, need-len(h.f.data))...)
	}
	copy(h.f.data[off:], p[:landed])
	e := d.record(ev)
	d.mu.Unlock()
	if d.After != nil {
		d.After(e)
	}
	if fa != nil {
		return landed, ErrInjected
	}
	if short {
		return landed, io.EOF
	}
	return len(p), nil
}

func (h *handle) Sync() error {
	d := h.d
	d.mu.Lock()
	if h.closed {
		d.mu.Unlock()
		return os.ErrClosed
	}
	ev := Event{Kind: "sync", Name: h.name, Handle: h.id}
	if fa := d.fault("sync", h.name); fa != nil {
		ev.Failed = true
		d.record(ev)
		d.mu.Unlock()
		return ErrInjected
	}
	d.mu.Unlock()
	if d.Before != nil {
		d.Before(&ev)
	}
	d.mu.Lock()
	h.f.dur = cp(h.f.data)
	h.f.synced = true
	if h.created && !h.synced {
		// fs.File.Sync: first Sync on a handle from Create also fsyncs the directory,
		// which makes every pending directory change durable.
		ev.DirSync = true
		for _, f := range d.files {
			f.entryDurable = true
		}
	}
	h.synced = true
	e := d.record(ev)
	d.mu.Unlock()
	if d.After != nil {
		d.After(e)
	}
	return nil
}

func (h *handle) Close() error {
	d := h.d
	d.mu.Lock()
	defer d.mu.Unlock()
	if h.closed {
		return os.ErrClosed
	}
	h.closed = true
	delete(d.OpenHandles, h.id)
	d.record(Event{Kind: "close", Name: h.name, Handle: h.id})
	return nil
}

// ---- MetaStore ----

func cpState(s types.PersistentState) types.PersistentState {
	out := types.PersistentState{NextSegmentID: s.NextSegmentID}
	if s.Segments != nil {
		out.Segments = append([]types.SegmentInfo(nil), s.Segments...)
	}
	return out
}

type Meta struct{ D *Disk }

func (m *Meta) Load(dir string) (types.PersistentState, error) {
	d := m.D
	d.mu.Lock()
	defer d.mu.Unlock()
	if f := d.fault("load", ""); f != nil {
		d.record(Event{Kind: "load", Failed: true})
		return types.PersistentState{}, ErrInjected
	}
	d.metaOpen = true
	d.MetaLoads++
	d.record(Event{Kind: "load"})
	return cpState(d.meta), nil
}

func (m *Meta) CommitState(s types.PersistentState) error {
	d := m.D
	d.mu.Lock()
	if !d.metaOpen {
		d.mu.Unlock()
		return errors.New("simfs: meta store not open")
	}
	if f := d.fault("commit", ""); f != nil {
		d.record(Event{Kind: "commit", Failed: true})
		d.mu.Unlock()
		return ErrInjected
	}
	st := cpState(s)
	ev := Event{Kind: "commit", Meta: &st}
	d.mu.Unlock()
	if d.Before != nil {
		d.Before(&ev)
	}
	d.mu.Lock()
	d.meta = cpState(s)
	d.hasMeta = true
	e := d.record(ev)
	d.mu.Unlock()
	if d.After != nil {
		d.After(e)
	}
	return nil
}

func (m *Meta) GetStable(key []byte) ([]byte, error) {
	d := m.D
	d.mu.Lock()
	if !d.metaOpen {
		d.mu.Unlock()
		return nil, errors.New("simfs: meta store not open")
	}
	v, ok := d.stable[string(key)]
	var out []byte
	if ok {
		out = cp(v)
	}
	h := d.AfterGetStable
	d.mu.Unlock()
	// the value has been read; a test may hold the caller here while other calls run
	if h != nil {
		h(key)
	}
	return out, nil
}

// SetAfterGetStable installs (or, with nil, removes) the AfterGetStable hook.
func (d *Disk) SetAfterGetStable(f func(key []byte)) {
	d.mu.Lock()
	d.AfterGetStable = f
	d.mu.Unlock()
}

func (m *Meta) SetStable(key, value []byte) error {
	d := m.D
	d.mu.Lock()
	defer d.mu.Unlock()
	if !d.metaOpen {
		return errors.New("simfs: meta store not open")
	}
	if f := d.fault("setstable", ""); f != nil {
		d.record(Event{Kind: "setstable", Key: cp(key), Failed: true})
		return ErrInjected
	}
	if value == nil {
		delete(d.stable, string(key))
	} else {
		d.stable[string(key)] = cp(value)
	}
	d.record(Event{Kind: "setstable", Key: cp(key), Val: cp(value)})
	return nil
}

func (m *Meta) Close() error {
	d := m.D
	d.mu.Lock()
	defer d.mu.Unlock()
	d.metaOpen = false
	d.record(Event{Kind: "metaclose"})
	return nil
}

// MetaOpen reports whether the meta store handle is currently held (Load without Close).
func (d *Disk) MetaOpen() bool {
	d.mu.Lock()
	defer d.mu.Unlock()
	return d.metaOpen
}

// ---- inspection ----

func (d *Disk) FileNames() []string {
	d.mu.Lock()
	defer d.mu.Unlock()
	names := make([]string, 0, len(d.files))
	for n := range d.files {
		names = append(names, n)
	}
	sort.Strings(names)
	return names
}

func (d *Disk) FileData(name string) ([]byte, bool) {
	d.mu.Lock()
	defer d.mu.Unlock()
	f, ok := d.files[name]
	if !ok {
		return nil, false
	}
	return cp(f.data), true
}

func (d *Disk) SetFileData(name string, data []byte) {
	d.mu.Lock()
	defer d.mu.Unlock()
	f, ok := d.files[name]
	if !ok {
		f = &file{entryDurable: true, synced: true}
		d.files[name] = f
	}
	f.data = cp(data)
	f.dur = cp(data)
}

func (d *Disk) RemoveFile(name string) {
	d.mu.Lock()
	defer d.mu.Unlock()
	delete(d.files, name)
}

func (d *Disk) MetaState() types.PersistentState {
	d.mu.Lock()
	defer d.mu.Unlock()
	return cpState(d.meta)
}

func (d *Disk) SetMetaState(s types.PersistentState) {
	d.mu.Lock()
	defer d.mu.Unlock()
	d.meta = cpState(s)
	d.hasMeta = true
}

func (d *Disk) Stable() map[string][]byte {
	d.mu.Lock()
	defer d.mu.Unlock()
	out := map[string][]byte{}
	for k, v := range d.stable {
		out[k] = cp(v)
	}
	return out
}

func (d *Disk) NumEvents() int {
	d.mu.Lock()
	defer d.mu.Unlock()
	return len(d.Events)
}

func (d *Disk) HandleCount() int {
	d.mu.Lock()
	defer d.mu.Unlock()
	return len(d.OpenHandles)
}

// FileDurability reports, for crash-image construction, the volatile and
// durable content of a file and whether its directory entry is durable.
type FileState struct {
	Name         string
	Data, Dur    []byte
	Synced       bool
	EntryDurable bool
}

func (d *Disk) FileStates() []FileState {
	d.mu.Lock()
	defer d.mu.Unlock()
	var out []FileState
	for n, f := range d.files {
		out = append(out, FileState{Name: n, Data: cp(f.data), Dur: cp(f.dur), Synced: f.synced, EntryDurable: f.entryDurable})
	}
	sort.Slice(out, func(i, j int) bool { return out[i].Name < out[j].Name })
	return out
}

// Clone copies the disk content (files, meta, stable) into a fresh Disk with no
// events, handles or faults: "the process died, here is what is on disk" for a
// process crash (kill -9), where the page cache survives.
func (d *Disk) Clone() *Disk {
	d.mu.Lock()
	defer d.mu.Unlock()
	n := New()
	for name, f := range d.files {
		n.files[name] = &file{data: cp(f.data), dur: cp(f.dur), synced: f.synced, entryDurable: f.entryDurable}
	}
	n.meta = cpState(d.meta)
	n.hasMeta = d.hasMeta
	for k, v := range d.stable {
		n.stable[k] = cp(v)
	}
	return n
}
