package main

import (
	"bufio"
	"bytes"
	"encoding/hex"
	"encoding/json"
	"fmt"
	"os"
	"os/exec"
	"sort"
	"strings"
	"time"
)

// A Case is a list of protocol lines plus what the real code answered for each.
// Exec re-runs the real code on a (possibly shrunk) op list from a fresh state;
// it must be deterministic.
type Case struct {
	ID    string
	Props []string // properties whose correspondence this case carries
	// SpecProps: properties whose abstract spec the driver's "## spec" column is (default: Props)
	SpecProps []string
	Ops       []string
	Impl      []string
	// Exec re-executes ops on the real code (fresh state) and returns one
	// output line per op. nil = not shrinkable.
	Exec func(ops []string) []string
	// Monitor checks the property directly on the real code's outputs. It returns
	// violations found for this case (independent of the Lean model's outputs).
	Monitor         func(ops, impl []string) []Violation
	NoShrinkMonitor bool // monitor verdicts depend on generator bookkeeping that does not survive op removal
	NonTrivial      bool
	Shape           string // canonical shape key for distinctness counting
	Tags            []string
}

type Violation struct {
	Property string   `json:"property"`
	What     string   `json:"what"`
	Case     string   `json:"case"`
	Ops      []string `json:"ops"`
	Impl     []string `json:"impl,omitempty"`
	Detail   string   `json:"detail,omitempty"`
	Finding  string   `json:"finding,omitempty"` // id of the known finding this matches, if any
}

type Divergence struct {
	Props []string `json:"props"`
	Case  string   `json:"case"`
	Ops   []string `json:"ops"`
	At    int      `json:"at"`
	Op    string   `json:"op"`
	Impl  string   `json:"impl"`
	Model string   `json:"model"`
	Spec  string   `json:"spec,omitempty"`
}

type Report struct {
	Suite       string         `json:"suite"`
	Seed        uint64         `json:"seed"`
	Tier        string         `json:"tier"`
	Cases       int            `json:"cases"`
	Ops         int            `json:"ops"`
	NonTrivial  int            `json:"distinct_nontrivial"`
	Rule        string         `json:"rule"`
	Dist        map[string]int `json:"distribution"`
	Samples     []any          `json:"samples"`
	Divergences []Divergence   `json:"divergences"`
	Violations  []Violation    `json:"violations"`
	Notes       []string       `json:"notes,omitempty"`
	Exhaustive  bool           `json:"exhaustive,omitempty"`
}

// countProp: violations already listed for a property (the lists are capped per property, so that a flood under one
// property never hides another property's reports)
func (r *Report) countProp(p string) int {
	n := 0
	for _, v := range r.Violations {
		if v.Property == p {
			n++
		}
	}
	return n
}

func driverPath() string {
	if p := os.Getenv("VERIF_DRIVER"); p != "" {
		return p
	}
	return "/verif/lean/.lake/build/bin/driver"
}

// runDriver pipes lines to `driver <suite>` and returns one output line per input line.
func runDriver(suite string, lines []string) ([]string, error) {
	cmd := exec.Command(driverPath(), suite)
	var in bytes.Buffer
	for _, l := range lines {
		in.WriteString(l)
		in.WriteByte('\n')
	}
	cmd.Stdin = &in
	var out, errb bytes.Buffer
	cmd.Stdout = &out
	cmd.Stderr = &errb
	if err := cmd.Run(); err != nil {
		return nil, fmt.Errorf("driver %s: %v: %s", suite, err, errb.String())
	}
	var res []string
	sc := bufio.NewScanner(&out)
	sc.Buffer(make([]byte, 1<<20), 1<<30)
	for sc.Scan() {
		res = append(res, sc.Text())
	}
	if len(res) != len(lines) {
		return nil, fmt.Errorf("driver %s: %d output lines for %d input lines: %s", suite, len(res), len(lines), errb.String())
	}
	return res, nil
}

// splitModelSpec splits "model ## spec".
func splitModelSpec(s string) (string, string) {
	if i := strings.Index(s, " ## "); i >= 0 {
		return s[:i], s[i+4:]
	}
	return s, ""
}

// firstDiff returns the first op index at which impl and model differ, or -1.
func firstDiff(impl, model []string) int {
	for i := range impl {
		if i >= len(model) {
			return i
		}
		m, _ := splitModelSpec(model[i])
		if impl[i] != m {
			return i
		}
	}
	return -1
}

// firstSpecDiff returns the first op index at which impl differs from the spec column.
func firstSpecDiff(impl, model []string) int {
	for i := range impl {
		if i >= len(model) {
			return -1
		}
		_, s := splitModelSpec(model[i])
		if s != "" && impl[i] != s {
			return i
		}
	}
	return -1
}

// shrink: greedy delta-debugging over ops with predicate `bad`.
func shrinkOps(ops []string, bad func([]string) bool) []string {
	cur := append([]string(nil), ops...)
	// time budget: a failing case whose re-execution is slow (calls that block until their deadline) is reported
	// less shrunk rather than holding up the run
	deadline := time.Now().Add(25 * time.Second)
	for chunk := len(cur) / 2; chunk >= 1; chunk /= 2 {
		for i := 0; i+chunk <= len(cur); {
			if time.Now().After(deadline) {
				return cur
			}
			cand := append(append([]string(nil), cur[:i]...), cur[i+chunk:]...)
			if len(cand) > 0 && bad(cand) {
				cur = cand
			} else {
				i += chunk
			}
		}
	}
	return cur
}

// RunCases executes the correspondence and the monitors for a list of cases.
func RunCases(suite string, cases []*Case, rep *Report) {
	var lines []string
	for _, c := range cases {
		lines = append(lines, "case "+c.ID)
		lines = append(lines, c.Ops...)
	}
	model, err := runDriver(suite, lines)
	if err != nil {
		rep.Notes = append(rep.Notes, "driver failure: "+err.Error())
		rep.Divergences = append(rep.Divergences, Divergence{Props: []string{"*"}, Case: "driver", Op: "run", Impl: "", Model: err.Error()})
		return
	}
	shapes := map[string]bool{}
	pos := 0
	const maxReported = 5
	for _, c := range cases {
		pos++ // the "case" line
		m := model[pos : pos+len(c.Ops)]
		pos += len(c.Ops)
		rep.Cases++
		rep.Ops += len(c.Ops)
		for _, t := range c.Tags {
			rep.Dist[t]++
		}
		if c.NonTrivial && !shapes[c.Shape] {
			shapes[c.Shape] = true
		}
		if len(rep.Samples) < 3 || (c.NonTrivial && len(rep.Samples) < 6) {
			rep.Samples = append(rep.Samples, map[string]any{"case": c.ID, "ops": clip(c.Ops, 12), "impl": clip(c.Impl, 12)})
		}
		// property monitor on the real code's own outputs
		if c.Monitor != nil {
			seen := map[string]bool{}
			for _, v := range c.Monitor(c.Ops, c.Impl) {
				v.Case = c.ID
				if v.Ops == nil {
					v.Ops = c.Ops
					v.Impl = c.Impl
				}
				if seen[v.Property] {
					continue // one (shrunk) report per property and case
				}
				seen[v.Property] = true
				if c.Exec != nil && !c.NoShrinkMonitor && rep.countProp(v.Property) < maxReported {
					prop := v.Property
					has := func(o []string) *Violation {
						im := c.Exec(o)
						for _, w := range c.Monitor(o, im) {
							if w.Property == prop {
								w := w
								if w.Ops == nil {
									w.Ops, w.Impl = o, im
								}
								return &w
							}
						}
						return nil
					}
					small := shrinkOps(v.Ops, func(o []string) bool { return has(o) != nil })
					if w := has(small); w != nil {
						w.Case = c.ID + "/shrunk"
						w.Ops, w.Impl = small, c.Exec(small)
						v = *w
					}
				}
				if rep.countProp(v.Property) < 2*maxReported {
					rep.Violations = append(rep.Violations, v)
				} else {
					rep.Dist["violations_not_listed"]++
				}
			}
		}
		// spec column: impl vs what the property's abstract spec says
		if i := firstSpecDiff(c.Impl, m); i >= 0 {
			_, s := splitModelSpec(m[i])
			ops := c.Ops
			if c.Exec != nil {
				ops = shrinkOps(c.Ops, func(o []string) bool {
					im := c.Exec(o)
					mo, err := runDriver(suite, append([]string{"case s"}, o...))
					if err != nil {
						return false
					}
					return firstSpecDiff(im, mo[1:]) >= 0
				})
			}
			sp := c.SpecProps
			if sp == nil {
				sp = c.Props
			}
			for _, p := range sp {
				if rep.countProp(p) < 2*maxReported {
					rep.Violations = append(rep.Violations, Violation{Property: p, Case: c.ID, Ops: ops,
						What:   "real code's answer differs from the abstract specification",
						Detail: fmt.Sprintf("op %q: impl=%q spec=%q", c.Ops[i], c.Impl[i], s)})
				}
			}
		}
		// correspondence: impl vs model
		if i := firstDiff(c.Impl, m); i >= 0 {
			ops := c.Ops
			at := i
			if c.Exec != nil {
				ops = shrinkOps(c.Ops, func(o []string) bool {
					im := c.Exec(o)
					mo, err := runDriver(suite, append([]string{"case s"}, o...))
					if err != nil {
						return false
					}
					return firstDiff(im, mo[1:]) >= 0
				})
				im := c.Exec(ops)
				mo, _ := runDriver(suite, append([]string{"case s"}, ops...))
				if mo != nil {
					if j := firstDiff(im, mo[1:]); j >= 0 {
						mm, ss := splitModelSpec(mo[1+j])
						if len(rep.Divergences) < maxReported {
							rep.Divergences = append(rep.Divergences, Divergence{Props: c.Props, Case: c.ID, Ops: ops, At: j, Op: ops[j], Impl: im[j], Model: mm, Spec: ss})
						} else {
							rep.Dist["divergences_not_listed"]++
						}
						// run the monitor on the shrunk case too (search step)
						if c.Monitor != nil {
							for _, v := range c.Monitor(ops, im) {
								v.Case = c.ID + "/shrunk"
								if v.Ops == nil {
									v.Ops = ops
									v.Impl = im
								}
								rep.Violations = append(rep.Violations, v)
							}
						}
						continue
					}
				}
			}
			mm, ss := splitModelSpec(m[at])
			if len(rep.Divergences) < maxReported {
				rep.Divergences = append(rep.Divergences, Divergence{Props: c.Props, Case: c.ID, Ops: ops, At: at, Op: c.Ops[at], Impl: c.Impl[at], Model: mm, Spec: ss})
			} else {
				rep.Dist["divergences_not_listed"]++
			}
		}
	}
	rep.NonTrivial += len(shapes)
}

func clip(xs []string, n int) []string {
	out := make([]string, 0, n)
	for i, x := range xs {
		if i >= n {
			out = append(out, fmt.Sprintf("… (%d more)", len(xs)-n))
			break
		}
		if len(x) > 200 {
			x = x[:200] + "…"
		}
		out = append(out, x)
	}
	return out
}

func newReport(suite string, seed uint64, tier string) *Report {
	return &Report{Suite: suite, Seed: seed, Tier: tier, Dist: map[string]int{}, Samples: []any{}, Divergences: []Divergence{}, Violations: []Violation{}}
}

func (r *Report) Write(path string) error {
	b, err := json.MarshalIndent(r, "", " ")
	if err != nil {
		return err
	}
	if path == "-" || path == "" {
		_, err = os.Stdout.Write(append(b, '\n'))
		return err
	}
	return os.WriteFile(path, append(b, '\n'), 0o644)
}

func hx(b []byte) string {
	if len(b) == 0 {
		return "-"
	}
	return hex.EncodeToString(b)
}

func unhx(s string) []byte {
	if s == "-" {
		return nil
	}
	b, _ := hex.DecodeString(s)
	return b
}

func sortedKeys[V any](m map[string]V) []string {
	ks := make([]string, 0, len(m))
	for k := range m {
		ks = append(ks, k)
	}
	sort.Strings(ks)
	return ks
}

// RunCasesPrefix is RunCases for answers of the form "<n> d1 d2 …": the model's list may be longer than the
// implementation-side list; they must agree on the implementation-side length.
func RunCasesPrefix(suite string, cases []*Case, rep *Report) {
	var lines []string
	for _, c := range cases {
		lines = append(lines, "case "+c.ID)
		lines = append(lines, c.Ops...)
	}
	model, err := runDriver(suite, lines)
	if err != nil {
		rep.Divergences = append(rep.Divergences, Divergence{Props: []string{"*"}, Case: "driver", Op: "run", Model: err.Error()})
		return
	}
	pos := 0
	for _, c := range cases {
		pos++
		m := model[pos : pos+len(c.Ops)]
		pos += len(c.Ops)
		rep.Cases++
		rep.Ops += len(c.Ops)
		for _, t := range c.Tags {
			rep.Dist[t]++
		}
		rep.NonTrivial++
		if len(rep.Samples) < 4 {
			rep.Samples = append(rep.Samples, map[string]any{"case": c.ID, "segment_files": len(c.Ops), "impl": clip(c.Impl, 4)})
		}
		if c.Monitor != nil {
			for _, v := range c.Monitor(c.Ops, c.Impl) {
				v.Case = c.ID
				rep.Violations = append(rep.Violations, v)
			}
		}
		for i := range c.Ops {
			want := strings.Fields(c.Impl[i])
			got := strings.Fields(m[i])
			ok := len(got) >= len(want) && len(want) >= 1
			if ok {
				for j := 1; j < len(want); j++ {
					if got[j] != want[j] {
						ok = false
					}
				}
				if len(got) > 0 && len(want) > 0 && atoiU(got[0]) < atoiU(want[0]) {
					ok = false
				}
			}
			if !ok {
				rep.Divergences = append(rep.Divergences, Divergence{Props: c.Props, Case: c.ID, At: i, Op: clipS(c.Ops[i]), Impl: clipS(c.Impl[i]), Model: clipS(m[i])})
				rep.Violations = append(rep.Violations, Violation{Property: "C09", Case: c.ID, What: "a segment file of a golden directory does not decode, with the README decoder, to the manifest's entries", Detail: fmt.Sprintf("file %d: want %s got %s", i, clipS(c.Impl[i]), clipS(m[i]))})
			}
		}
	}
}
