"""Per-property configuration of ./check: which correspondence suites carry the
property, extra trusted-base entries, what is partial."""

PROPS = {
    "C11": {
        "suites": ["codec", "segment"],
        "partial": "the universal claim over all byte strings is carried by totality and bound theorems about the model (decoder, scan, read path); that the Go code has no panic site outside the modelled ones is established by the malformed-input stream of the codec/segment suites (run in-process with recover), not by proof; Open-level damage classes and handle release after a failed Open are exercised by the wal-level suites when present",
        "assumptions": ["reads do not fail with I/O errors in the model", "Go slice/alloc semantics as modelled"],
    },
    "C12": {
        "suites": ["codec", "wal"],
        "partial": "time.Time is modelled by its MarshalBinary wire form (Go stdlib, trusted); pool aliasing is carried by the generated fact decoderBytesCopies plus the monitor that scribbles over the input buffer after Decode; StoreLogs/GetLog round trip and the codec-ID matrix across reopen are carried by the wal suite (correspondence + monitor)",
        "assumptions": ["time.Time.MarshalBinary/UnmarshalBinary as in Go 1.23 (wire form 15/16 bytes)", "bytes.Buffer.Write never fails"],
    },
    "C20": {
        "suites": ["wal", "verifier"],
        "partial": "static half (every emitting call site is declared, right kind, literal name, no duplicates) is a theorem over the regenerated call-site table; the dynamic half (counters equal true totals) is decided by the correspondence of Model.Wal/Model.Verifier counters with the real AtomicCollector after every case plus the monitor that recomputes the totals from API results; the counters_exact theorem over all op sequences is not yet mechanised",
        "assumptions": [],
    },
}
