"""Per-property configuration of ./check: which correspondence suites carry the
property, extra trusted-base entries, what is partial."""

PROPS = {
    "C12": {
        "suites": ["codec"],
        "partial": "time.Time is modelled by its MarshalBinary wire form (Go stdlib, trusted); pool aliasing is carried by the generated fact decoderBytesCopies plus the monitor that scribbles over the input buffer after Decode; the WAL-level halves (StoreLogs/GetLog round trip, codec-ID checks across reopen) are carried by the wal suites",
        "assumptions": ["time.Time.MarshalBinary/UnmarshalBinary as in Go 1.23 (wire form 15/16 bytes)", "bytes.Buffer.Write never fails"],
    },
}
