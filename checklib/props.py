"""Per-property configuration of ./check: which correspondence suites carry the
property, extra trusted-base entries, what is partial."""

PROPS = {
    "C01": {
        "suites": ["crash", "segment", "faultmodel"],
        "partial": "the WAL-level crash statement is a theorem about the I/O-action model Model/Crash.lean (programs of StoreLogs with rotation and base reset, both truncations, Set and Open; process crash and power loss with any per-file choice of surviving un-fsynced batches and directory entries; any number of recoveries themselves cut by crashes), proved for every state satisfying the invariant QuiescentS, which is itself proved to hold initially, after every call and after every recovery; the model is tied to wal.go by the crash suite (per call: the real I/O event sequence = the model's program; per crash point and {process crash, nothing/everything un-fsynced surviving}: the log the real Open recovers = the model's; nested restarts; the invariant evaluated on every shadowed state). Granularity of the model is the batch: that a torn batch is recovered as absent or whole is the byte-level theorem (L1, batch_atomic_any_tear) — for one segment file the two levels are linked by theorem in both directions (Props/C02 byte_level_refines_protocol_file, protocol_outcomes_realised_at_byte_level, over chains of appends, tears, recoveries and restarts); the composition with the multi-file protocol is the L2 development plus the chunk-granular crash suite. I/O errors are C10's; BoltDB's atomic durable commit and the OS fsync contract (C07) are assumed",
        "assumptions": ["disk model of DESIGN §5 (8-byte chunk granularity, fsync semantics, atomic meta commits)", "simfs mirrors the production fs package (probed at start-up; C07 checks the real layer)"],
    },
    "C02": {
        "suites": ["crash", "segment"],
        "partial": "the WAL-level crash statement is a theorem about the I/O-action model Model/Crash.lean (programs of StoreLogs with rotation and base reset, both truncations, Set and Open; process crash and power loss with any per-file choice of surviving un-fsynced batches and directory entries; any number of recoveries themselves cut by crashes), proved for every state satisfying the invariant QuiescentS, which is itself proved to hold initially, after every call and after every recovery; the model is tied to wal.go by the crash suite (per call: the real I/O event sequence = the model's program; per crash point and {process crash, nothing/everything un-fsynced surviving}: the log the real Open recovers = the model's; nested restarts; the invariant evaluated on every shadowed state). Granularity of the model is the batch: that a torn batch is recovered as absent or whole is the byte-level theorem (L1, batch_atomic_any_tear) — for one segment file the two levels are linked by theorem in both directions (Props/C02 byte_level_refines_protocol_file, protocol_outcomes_realised_at_byte_level, over chains of appends, tears, recoveries and restarts); the composition with the multi-file protocol is the L2 development plus the chunk-granular crash suite. CRC-32C collisions are outside the statement (explicit disjuncts of the L1 theorem)",
        "assumptions": ["CRC-32C collisions excluded as stated in the theorem", "disk model of DESIGN §5"],
    },
    "C03": {
        "suites": ["crash", "segment", "opendamage"],
        "partial": "the WAL-level crash statement is a theorem about the I/O-action model Model/Crash.lean (programs of StoreLogs with rotation and base reset, both truncations, Set and Open; process crash and power loss with any per-file choice of surviving un-fsynced batches and directory entries; any number of recoveries themselves cut by crashes), proved for every state satisfying the invariant QuiescentS, which is itself proved to hold initially, after every call and after every recovery; the model is tied to wal.go by the crash suite (per call: the real I/O event sequence = the model's program; per crash point and {process crash, nothing/everything un-fsynced surviving}: the log the real Open recovers = the model's; nested restarts; the invariant evaluated on every shadowed state). Granularity of the model is the batch: that a torn batch is recovered as absent or whole is the byte-level theorem (L1, batch_atomic_any_tear) — for one segment file the two levels are linked by theorem in both directions (Props/C02 byte_level_refines_protocol_file, protocol_outcomes_realised_at_byte_level, over chains of appends, tears, recoveries and restarts); the composition with the multi-file protocol is the L2 development plus the chunk-granular crash suite. usability = Open succeeds and every legal call then behaves as specified; the real code's append/read/stable-set after every recovered image is exercised by the crash suite's continuation and usability probes",
        "assumptions": ["disk model of DESIGN §5"],
    },
    "C04": {
        "suites": ["crash", "wal", "fault"],
        "partial": "the WAL-level crash statement is a theorem about the I/O-action model Model/Crash.lean (programs of StoreLogs with rotation and base reset, both truncations, Set and Open; process crash and power loss with any per-file choice of surviving un-fsynced batches and directory entries; any number of recoveries themselves cut by crashes), proved for every state satisfying the invariant QuiescentS, which is itself proved to hold initially, after every call and after every recovery; the model is tied to wal.go by the crash suite (per call: the real I/O event sequence = the model's program; per crash point and {process crash, nothing/everything un-fsynced surviving}: the log the real Open recovers = the model's; nested restarts; the invariant evaluated on every shadowed state). Granularity of the model is the batch: that a torn batch is recovered as absent or whole is the byte-level theorem (L1, batch_atomic_any_tear) — for one segment file the two levels are linked by theorem in both directions (Props/C02 byte_level_refines_protocol_file, protocol_outcomes_realised_at_byte_level, over chains of appends, tears, recoveries and restarts); the composition with the multi-file protocol is the L2 development plus the chunk-granular crash suite. what a completed truncation means on the contiguous log is the C05 refinement; a DeleteRange whose meta commit fails with an I/O error is exercised by the fault suite",
        "assumptions": ["atomic durable meta commit (BoltDB)", "disk model of DESIGN §5"],
    },
    "C05": {
        "suites": ["wal", "sizes"],
        "partial": "the refinement theorem is about the L2 model (logical segment files; sealing decided by byte sizes, which the proof does not depend on) and programs whose indexes stay below 2^64-1; rotation is performed before the next call (the harness inserts a barrier); model = code is sampled exhaustively over a reduced alphabet to a length bound and randomly beyond, on simfs and on the real filesystem + BoltDB",
        "assumptions": ["no segment file exceeds 4 GiB (uint32 offsets; documented limit)", "immutable.SortedMap as a sorted list with the Seek/Prev semantics read from its source"],
    },
    "C07": {
        "suites": ["fsdur"],
        "leanchecker": True,
        "partial": "what the kernel and the device do with fsync/rename is assumed (DESIGN §3.4); the theorems are about the OS-level durability model of Model/OsFs.lean, tied to the production fs/ and metadb/ packages by comparing strace'd system-call sequences per VFS call; the contract over whole workloads is evaluated by a monitor on the trace (exploration of generated workloads, not a proof over all code paths)",
        "assumptions": ["fsync(fd) makes earlier writes to the file durable; fsync(dirfd) makes earlier create/unlink/rename durable", "ptrace is permitted in the sandbox (the check reports itself unable to run otherwise)"],
    },
    "C08": {
        "suites": ["wal", "crash", "conc", "fsdur", "faultmodel"],
        "partial": "stable_refines / get-after-set / isolation are theorems of the sequential model; stable_any_crash (stable store before-or-after under every crash point, crash kind and recovery history; after once acknowledged) is a theorem of Model/Crash.lean; concurrency (callers owning different keys, forced interleaving) and aliasing of returned values are checked on the real BoltDB store by the conc suite; BoltDB's atomic durable commit is trusted",
        "assumptions": ["BoltDB: a write transaction is atomic and durable when Commit returns; Get after Put returns the value"],
    },
    "C09": {
        "suites": ["segment", "golden", "wal"],
        "partial": "Spec.Format is written from README.md alone (one ambiguity resolved by the property text: the first commit's CRC covers the file header); the CRC-32C primitive is shared between model and spec (external standard, compared with hash/crc32 on every run); the README calls the meta bucket 'wal-state' while the code uses 'wal-meta' (documentation discrepancy, recorded); the BoltDB record itself is compared through the meta op of the wal suite, not proved",
        "assumptions": ["hash/crc32 Castagnoli = bitwise CRC-32C of Model/Bytes.lean (differential)"],
    },
    "C10": {
        "suites": ["fault", "faultmodel", "segment", "crash"],
        "partial": "proved at the WAL level for every history of calls, each under any fault plan — any number of its I/O actions failing (Model.Fault: readers see exactly the calls that returned nil; a clean restart recovers the history with each failed call applied in full or not at all); proved at the byte level for the writer's rollback (Model.Segment). Not covered by a theorem: appends that take several writes (batches over the 64 KiB commit buffer), failing reads and a failing Open — those are explored by the fault suite's ghost-state monitors on the real code; the byte level and the protocol level are linked by matching statements and correspondence, not by a mechanised composition",
        "assumptions": ["reads do not fail", "a failing write lands a prefix of its bytes"],
    },
    "C11": {
        "suites": ["codec", "segment", "opendamage", "sizes"],
        "partial": "the universal claim over all byte strings is carried by totality and bound theorems about the model (decoder, scan, read path); that the Go code has no panic site outside the modelled ones is established by the malformed-input stream of the codec/segment suites (run in-process with recover), not by proof; Open-level damage classes and handle release after a failed Open are exercised by the wal-level suites when present",
        "assumptions": ["reads do not fail with I/O errors in the model", "Go slice/alloc semantics as modelled"],
    },
    "C12": {
        "suites": ["codec", "wal", "conc", "sizes"],
        "partial": "time.Time is modelled by its MarshalBinary wire form (Go stdlib, trusted); pool aliasing is carried by the generated fact decoderBytesCopies plus the monitor that scribbles over the input buffer after Decode; StoreLogs/GetLog round trip and the codec-ID matrix across reopen are carried by the wal suite (correspondence + monitor)",
        "assumptions": ["time.Time.MarshalBinary/UnmarshalBinary as in Go 1.23 (wire form 15/16 bytes)", "bytes.Buffer.Write never fails"],
    },
    "C13": {
        "suites": ["wal", "crash", "conc"],
        "partial": "dir_exact and ids_never_reused are theorems for every sequential run; recovered_dir_exact_any_crash (after every recovery the directory holds exactly the live segments' files, ids below NextSegmentID) is a theorem of Model/Crash.lean; the real directory is compared after every call (wal suite, real FS) and after every Open of the crash suite; deletion deferred by concurrent readers is exercised by the conc suite",
        "assumptions": ["VFS Delete = unlink + directory fsync (checked on the real layer by C07)"],
    },
    "C15": {
        "suites": ["sizes", "segment", "conc"],
        "partial": "the theorem is about the byte-level segment model under the no-wrap side conditions RunWF (files below 4 GiB, the documented limit; offsets are uint32 in code and model); the 64 MiB cases run on the real code with real payloads and are compared with the size-level functions of the model (64 MiB byte lists are not materialised in Lean)",
        "assumptions": ["segment files stay below 4 GiB"],
    },
    "C16": {
        "suites": ["verifier"],
        "partial": "theorems are per node over the reference log as underlying store (the WAL equals it by C05); multi-node statements are composed from the per-node invariant (running sum = chain over stored entries) and the verdict theorems rather than stated as one cluster-level theorem; ranges modified while their verification is outstanding are outside the property",
        "assumptions": ["fasthash/fnv1a = byte-wise FNV-1a with big-endian AddUint64 (compared differentially via the `sum` op)", "underlying store behaves as the contiguous reference log"],
    },
    "C17": {
        "suites": ["verifier"],
        "partial": "detection is proved up to hash collisions (chain inequality is a hypothesis) and with certainty for single-byte substitutions; Data‖Extensions are hashed without a separator, so moving bytes across that boundary is a structural collision outside the single-field quantifier (documented observation)",
        "assumptions": ["fasthash/fnv1a as modelled"],
    },
    "C18": {
        "suites": ["verifier"],
        "partial": "never-blocks is a statement about the model's channel protocol (non-blocking select with default, fact not extracted) plus the harness measuring that StoreLogs returns while ReportFn is blocked; goroutine scheduling is sampled, not proved",
        "assumptions": ["Go channel semantics: 1-buffered channel, select with default"],
    },
    "C19": {
        "suites": ["migrate"],
        "partial": "destination modelled as the reference log (equal to the WAL by C05; raft-boltdb and InmemStore destinations are covered by the correspondence only); progress-channel closure is checked on the real code by the monitor, not modelled; CopyStable aborts on a source that reports absent keys as an error (raft-boltdb, InmemStore) — an absent standard key has no value to transfer, recorded as an observation in DESIGN §7 (O15)",
        "assumptions": [],
    },
    "C06": {
        "suites": ["conc"],
        "race": True,
        "partial": "theorems hold for every schedule of the small-step model Model/Conc.lean (any number of readers, any queue of truncations/rotations, Close), whose steps are single shared-memory accesses under sequential consistency; the real code is tied to it by regenerated facts and by forced schedules (yield points of the verif build tag, simfs hooks) whose outcomes are compared with the model, and explored by free-running stress with a version-interval oracle on every read; weak-memory behaviour of Go's sync/atomic is trusted (SC for atomics), the race-detector run of the thorough tier is supporting exploration; visibility-only-once-durable is the segment-level theorem C01.visible_only_after_sync plus the regenerated fact that OffsetForFrame is gated on the commit index, exercised by the fsync-window schedule",
        "assumptions": ["Go sync/atomic operations are sequentially consistent; sync.Mutex and channels behave as specified", "segment ids are never reused (C13)"],
    },
    "C14": {
        "suites": ["conc"],
        "race": True,
        "partial": "no_panic / closed_is_final / close_releases_all are theorems over every schedule of Model/Conc.lean for the reader path against the writer's state changes and Close; the writer-side clauses (StoreLogs/DeleteRange/Set racing Close return ErrClosed, a rotation waiter is woken) are tied by three regenerated facts about wal.go and decided on the real code by forced schedules at every yield point, including Close running inside the window in which awaitRotationLocked has dropped the write lock",
        "assumptions": ["Go sync/atomic operations are sequentially consistent; sync.Mutex and channels behave as specified"],
    },
    "C20": {
        "suites": ["wal", "verifier"],
        "partial": "static half (every emitting call site is declared, right kind, literal name, no duplicates) is a theorem over the regenerated call-site table; the dynamic half (counters equal true totals) is decided by the correspondence of Model.Wal/Model.Verifier counters with the real AtomicCollector after every case plus the monitor that recomputes the totals from API results; counters_exact is proved for every run over the reference log (truncation counters modulo 2^64, as in the code); rotations are compared through the correspondence only",
        "assumptions": [],
    },
}
